#!/bin/bash
# usage: tools/try_seed.sh <patch.diff> <demo.rs|-> <ID> [<ID>...]
# Applies a seeded change to /repo, checks admissibility (pinned tests pass, demo fails), runs the given
# checks (quick tier), reverts. Prints a one-line summary per step. Never leaves /repo modified.
set -u
PATCH="$(readlink -f "$1")"; DEMO="$2"; shift 2
cd /repo
if [ -n "$(git status --porcelain)" ]; then echo "REPO-NOT-CLEAN"; exit 3; fi
cleanup() { cd /repo; git checkout -- . ; rm -f chess/tests/seed_demo.rs; }
trap cleanup EXIT
git apply "$PATCH" || { echo "PATCH-DOES-NOT-APPLY"; exit 3; }
if cargo test --workspace --offline >/tmp/seed_tests.log 2>&1; then echo "tests-with-patch: PASS"; else echo "tests-with-patch: FAIL (inadmissible)"; tail -5 /tmp/seed_tests.log; fi
if [ "$DEMO" != "-" ]; then
  mkdir -p chess/tests; cp "$DEMO" chess/tests/seed_demo.rs
  if cargo test --offline -p owlchess --test seed_demo >/tmp/seed_demo.log 2>&1; then echo "demo-with-patch: PASS (demo does not show the breakage!)"; else echo "demo-with-patch: FAIL (as intended)"; fi
  rm -f chess/tests/seed_demo.rs
fi
for ID in "$@"; do
  s=$(date +%s)
  (cd /verif && ./run "$ID" quick >/tmp/seed_run_$ID.log 2>&1); rc=$?
  e=$(date +%s)
  echo "check $ID: rc=$rc $((e-s))s  $(grep -m1 -A1 '^VIOLATION' /tmp/seed_run_$ID.log | tr '\n' ' ' | cut -c1-300)"
done
git checkout -- .
if [ "$DEMO" != "-" ]; then
  cp "$DEMO" chess/tests/seed_demo.rs
  if cargo test --offline -p owlchess --test seed_demo >/tmp/seed_demo2.log 2>&1; then echo "demo-clean: PASS"; else echo "demo-clean: FAIL (demo is wrong)"; tail -5 /tmp/seed_demo2.log; fi
  rm -f chess/tests/seed_demo.rs
fi
