TRUST = "Every generated position case may also carry a near-identical twin that the library sees first and a make/unmake history of the board object (DESIGN 5.6). Trusts rustc/cargo, proptest, the harness's own reference model where one is used (cross-checked against published perft counts in every run), and 64-bit hashing for distinct counting. Exploration only: absence of violations is established on the enumerated families, sampled elsewhere."

add("C01", "differential PBT against an independent reference move generator (proptest byte genomes, exhaustive small families, published perft)",
    "Generated-input search: hundreds of thousands (quick) / millions (thorough) of valid positions from 20 constructive sources per build configuration, a slice of / all 3-man positions and an enumerated 5-man en-passant family; every legal generator is compared move-set-for-move-set with a naive mailbox reference, and every other decider of legality is compared on all 7,781 well-formed moves. Falsification only.",
    TRUST, "DESIGN.md §6 C01")
add("C02", "PBT with a reference-legal-set oracle, re-validation identity and unchanged-on-refusal snapshots; walks mixing entry points",
    "Generated positions x all well-formed Move values, UCI strings (all 20,481 for a share of positions) and SAN texts through make_move / make / make_raw / MoveChain::push, plus walks of up to 100 applications: accepted iff reference-legal, result equals the reference apply(), re-validates identically, refusals leave full snapshots unchanged and never panic (both build configurations).",
    TRUST, "DESIGN.md §6 C02")
add("C03", "differential PBT against a by-the-rules reference apply(), counters at their limits",
    "every legal move of each generated position (counts in the evidence file): resulting raw position and FEN text compared field by field with the reference successor, through make_move, make_raw and make::Uci; counter edge values are part of every source; label histogram proves each special path is hit.",
    TRUST, "DESIGN.md §6 C03")
add("C04", "snapshot-invariant PBT over single moves and generated nested make/unmake histories (raw, MoveChain, Walker)",
    "Full-state snapshots (raw fields, hash, all 16 occupancy sets via a read-only hook) compared before make and after unmake for every semilegal and null move of each generated position, along generated nested histories (depth up to ~120), and along chains of more than 2^16 plies replayed through raw make/unmake, MoveChain push/pop and Walker.",
    TRUST, "DESIGN.md §6 C04")
add("C05", "recomputation-invariant PBT over histories, metamorphic transposition check, exhaustive key-distinctness enumeration",
    "After every step of generated apply/undo histories, and on boards fresh from the validation gate / FEN parser, the stored hash and sets are compared with a from-scratch recomputation; two move orders reaching one position must hash equally; all single-feature differences (4,992 cell pairs per base board, side, 120 rights pairs, 2,080 mark pairs) must hash differently (exhaustive).",
    TRUST, "DESIGN.md §6 C05")
add("C06", "exhaustive enumeration of all 532,480 move tuples + differential PBT of semilegal generation/validation against the reference",
    "Move::new decided on every tuple against coordinate geometry (exhaustive, every run); generated positions x all 7,781 well-formed moves: is_semilegal <=> generator membership <=> reference pseudo-legal set; partition identities of the generators.",
    TRUST, "DESIGN.md §6 C06")
add("C07", "differential PBT against a reference outcome classifier + exhaustive material-multiset enumeration",
    "Generated positions (each re-evaluated at clocks 0/99/100/149/150/65535), every 3-man position, and all 10,626+ multisets of <= 4 extra men x square colour x 2 king placements x 2 sides x 5 clocks: calc_outcome / calc_draw_simple in the right class with an applicable reason, has_legal_moves and is_check exact.",
    TRUST, "DESIGN.md §6 C07")
add("C08", "round-trip PBT with an independent strict FEN reader/writer; parse-format-parse stability on generated and mutated text",
    "Generated valid positions and raw boards round-trip through FEN; output must satisfy an independently written canonical-FEN reader that yields the same position; grammar/mutated/alphabet texts: accepted text is stable under parse-format-parse, canonical text is accepted with the independent meaning.",
    TRUST, "DESIGN.md §6 C08")
add("C09", "differential PBT against a reference SAN writer; soundness of parsing via an independent tokenizer and the reference legal set",
    "Generated positions (incl. a family built to need file/rank/both hints and pins) x every legal move: text equals the PGN-standard reference, distinct, round-trips; position x text cases (grammar SAN with known meaning, mutated, terse, arbitrary): a returned move is legal, agrees with the text and is the only one that does; ambiguity errors carry two distinct agreeing legal moves; documented spellings must be accepted.",
    TRUST, "DESIGN.md §6 C09")
add("C10", "PBT with exhaustive per-position enumeration of all 20,481 UCI strings against reference move sets",
    "Generated positions: every semilegal move round-trips through UCI text including its kind; for every one of the 20,481 strings both checking readers and make::Uci accept exactly when the reference has such a move; the null move is never accepted.",
    TRUST, "DESIGN.md §6 C10")
add("C11", "differential PBT of the validation gate against reference validity and normalisation over generated raw boards",
    "Raw boards from 5 sources built to hit every rejection reason and normalisation kind (evidence lists hits per class; zero hits = inconclusive): accept <=> reference-valid, reported reason holds, result equals the reference normalisation and is idempotent and internally consistent.",
    TRUST, "DESIGN.md §6 C11")
add("C12", "totality fuzzing: generated/mutated/multi-byte strings and exhaustive short strings for 11 parser entry points, in fixed and generated positions, with format round trip",
    "Generated strings (grammar, mutated valid text, multi-byte substitutions with coinciding byte lengths, arbitrary scalar values, ~10 kB inputs) and every string of length <= 3 over a 25-symbol alphabet for each entry point, in release and checked builds: no panic, and parse(format(v)) == v for every accepted value. cargo-fuzz target fuzz_text (thorough) shares the oracle.",
    TRUST, "DESIGN.md §6 C12")
add("C13", "model-based stateful PBT over MoveChain operation histories (list-of-moves model + replay) + generated equality relations (rebuilt, transposed, prefix chains)",
    "Generated histories of up to 70 operations (pushes through six routes, refused values, pops, outcome operations, clones) interpreted against a (start, moves, outcome) model with reference positions; full move-list and replay comparison; equality/inequality of chains built by different routes, of transposed move orders reaching one position, and of a chain against every proper prefix of itself on starts with saturated counters (identical final positions).",
    TRUST, "DESIGN.md §6 C13")
add("C14", "model-based stateful PBT with an occurrence-multiset model of repetitions and a generated observation schedule + exhaustive filter table + sorted key-change search for positions of one game that share a counter",
    "Shuffle-biased and directed repetition histories, plus one position recurring 70-301 times and unwound, (pops, look-alike positions, clocks near the limits): calc_outcome must be in the model's class (forced > mandatory > claimable > none) with an applicable reason after every operation, or (half of the cases) only after every 2nd / 4th / 8th operation so that values remembered between looks can go stale; set_auto_outcome against an independent filter table for all three filters; Outcome::passes/is_force enumerated over 22 x 3.",
    TRUST, "DESIGN.md §6 C14")
add("C15", "exhaustive enumeration of all table entries (leapers, pairs, all relevant-blocker subsets) against ray walking, through the hooks and - as generated positions - through move generation and the attack queries (bishop, rook, queen), plus random occupancies",
    "Through read-only hooks: all leaper/pawn entries, all 4,096 pairs, all 107,648 relevant-blocker subsets per slider x (bare, all irrelevant bits, own square, every single irrelevant bit, k random irrelevant patterns), and tens of millions of random 64-bit occupancies; and every relevant-blocker subset of bishop, rook and queen (6,946,816 for the queen) built as a valid position whose semilegal/legal destinations, cell_attackers and is_cell_attacked must equal ray walking; the tables are those of the build under test (build.rs is re-run by cargo when it changes).",
    TRUST + " Exhaustive over relevant blocker subsets, sampled over irrelevant bits.", "DESIGN.md §6 C15")
add("C16", "differential PBT of attack/check queries against reference ray-walking geometry",
    "Generated positions x 64 squares x 2 colours: is_cell_attacked, cell_attackers, is_check, checkers equal the reference.",
    TRUST, "DESIGN.md §6 C16")
add("C17", "model-based PBT of Walker scripts (cursor model) and printing (independently assembled text), on chains of legal moves and on chains with null moves (history invariant: positions recorded at push time)",
    "Generated chains x generated walker scripts, and chains of more than 2^16 plies (next/prev/start/end): every returned (position, move) equals an independent replay as a full snapshot and the chain stays untouched; UCI list rebuilds an equal chain; styled() for 3 number policies x 3 styles x 2 status policies equals an independently assembled string; chains with null moves (push_unchecked) walked against the positions recorded at push time and printed in coordinate style.",
    TRUST, "DESIGN.md §6 C17")
add("C18", "metamorphic PBT: colour mirror and left-right mirror of generated positions and of unvalidated boards",
    "Generated positions: the mirrored position must validate unchanged and have exactly the mirrored legal / semilegal / capture move sets and the same check / outcome classification (winner swapped); no reference model involved.",
    "Trusts rustc/cargo, proptest; compares the library with itself under a symmetry of the rules.", "DESIGN.md §6 C18")
add("C19", "directed search (simulated annealing) for the move-list bound, checked-build execution of all queries, exhaustive magic-index bounds",
    "Search for a position with > 256 semilegal moves through a safe Vec sink (best found: 242); heavy positions run through every generator and query in a build with debug assertions and overflow checks (out-of-range unchecked access panics/aborts and is attributed to the case); offset + index < table length for every square and every subset of the library's masks (exhaustive, via hook). Thorough adds ASan fuzzing and Miri.",
    TRUST + " The 256 bound is attacked by search only: a plateau below the limit is evidence, not proof.", "DESIGN.md §6 C19")
add("C20", "exhaustive enumeration of all finite value types, all Unicode scalar values, short strings; set-model PBT of Bitboard",
    "All indices (incl. out-of-range ones that must panic), all 1,112,064 characters, all strings of length <= 3 over a 32-symbol alphabet, all 64 x 141 square/delta pairs and every named constant; Bitboard against a BTreeSet model on all 2^16 sets of each 16-square band and generated 64-bit sets incl. the extreme ones.",
    "Trusts rustc/cargo, proptest, std::collections::BTreeSet.", "DESIGN.md §6 C20")
