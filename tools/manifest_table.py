add("C01",
    "differential PBT against an independent reference move generator (proptest genomes + exhaustive small families + published perft)",
    "Generated-input search: 120k (quick) / 6M (thorough) valid positions from 12 constructive sources per configuration, all 3-man "
    "positions and an enumerated 5-man en-passant family, each compared move-set-for-move-set with a naive mailbox reference model that "
    "is itself validated against published perft counts in the same run. Falsification only: absence of counter-examples is established "
    "on the enumerated families, sampled elsewhere.",
    "Trusts the reference model (cross-checked by published perft), rustc/cargo, proptest; 64-bit hashing for distinct counting.",
    "DESIGN.md §6 C01")
