#!/bin/bash
# Thorough-tier extras for one property: libFuzzer campaigns over the same generators/oracles (cargo-fuzz:
# ASan + debug assertions), and Miri for C15/C19. Appends a "thorough_extras" object to the evidence file.
# usage: thorough_extras.sh <ID> <seed> <root> <release-bin> <checked-bin>
#        thorough_extras.sh --replay <file> <ID> <root>
# exit: 0 ok, 1 violation (VIOLATION line printed), 2 inconclusive
set -u
export CARGO_NET_OFFLINE=true
FT="${CARGO_TARGET_DIR:-/verif/harness/target}/fuzz"

if [ "$1" = "--replay" ]; then
  FILE="$2"; ID="$3"; ROOT="$4"; H="$ROOT/harness"
  TARGET=$(python3 -c "import json,sys;print(json.load(open('$FILE'))['case']['target'])")
  TMP=$(mktemp); python3 -c "import json,sys;sys.stdout.buffer.write(bytes.fromhex(json.load(open('$FILE'))['case']['artifact_hex']))" > "$TMP"
  (cd "$H" && OWLVERIF_FUZZ_ONLY="$ID" cargo +nightly fuzz run --target-dir "$FT" "$TARGET" "$TMP" >/tmp/fuzz_replay.log 2>&1); rc=$?
  rm -f "$TMP"
  if [ $rc -ne 0 ]; then echo "VIOLATION property=$ID replay=$FILE"; tail -20 /tmp/fuzz_replay.log >&2; exit 1; fi
  echo "replay: fuzz artifact no longer crashes"; exit 0
fi

ID="$1"; SEED="$2"; ROOT="$3"; REL="$4"; CHK="$5"; H="$ROOT/harness"
WORK="$ROOT/work/thorough-$ID"; rm -rf "$WORK"; mkdir -p "$WORK"
t0=$(date +%s)
viol=0; incon=0; notes=()

run_fuzz() {  # <target> <runs per job>
  local target="$1" runs="$2"
  local corp="$WORK/corpus-$target" art="$WORK/artifacts-$target/"
  mkdir -p "$corp" "$art"
  [ -d "$H/fuzz/seeds/$target" ] && cp "$H/fuzz/seeds/$target"/* "$corp/" 2>/dev/null
  (cd "$H" && cargo +nightly fuzz build --target-dir "$FT" "$target" >"$WORK/build-$target.log" 2>&1) || { echo "fuzz build failed" >&2; tail -20 "$WORK/build-$target.log" >&2; incon=1; return; }
  (cd "$WORK" && OWLVERIF_FUZZ_ONLY="$ID" timeout -k 10 7200 "$FT/x86_64-unknown-linux-gnu/release/$target" "$corp" \
      -runs="$runs" -seed="$SEED" -max_len=640 -len_control=0 -jobs=8 -workers=8 -artifact_prefix="$art" -print_final_stats=1 >"$WORK/fuzz-$target.log" 2>&1)
  local rc=$?
  local execs=$(grep -h "stat::number_of_executed_units" "$WORK"/fuzz-*.log 2>/dev/null | awk '{s+=$2} END {print s+0}')
  local corpus=$(ls "$corp" | wc -l)
  notes+=("\"$target: $execs executions in 8 jobs (-runs=$runs each, -seed=$SEED), corpus $corpus files, exit $rc\"")
  for a in "$art"*; do
    [ -f "$a" ] || continue
    # attribute the crash to a case through the ordinary binaries first
    out=$(OWLVERIF_FUZZ_ONLY="$ID" "$CHK" fuzz-replay "$target" "$a" --root "$ROOT" 2>&1); r1=$?
    if [ $r1 -eq 1 ]; then echo "$out" | grep '^VIOLATION'; echo "$out" | grep -v '^VIOLATION' >&2; viol=1; continue; fi
    out=$(OWLVERIF_FUZZ_ONLY="$ID" "$REL" fuzz-replay "$target" "$a" --root "$ROOT" 2>&1); r2=$?
    if [ $r2 -eq 1 ]; then echo "$out" | grep '^VIOLATION'; viol=1; continue; fi
    if [ $r1 -ge 128 ] || [ $r2 -ge 128 ]; then
      # aborts (non-unwinding panic) print their own VIOLATION line from the panic hook
      echo "$out" | grep '^VIOLATION' && viol=1 && continue
    fi
    # reproduces only in the sanitizer build: keep the raw artifact as the replay
    mkdir -p "$ROOT/replays"
    f="$ROOT/replays/$ID-fuzz_sanitizer-$(basename "$a" | cut -c1-24).json"
    python3 - "$a" "$target" "$ID" > "$f" <<'PY'
import sys, json
data = open(sys.argv[1], 'rb').read()
print(json.dumps({"property": sys.argv[3], "subcheck": "fuzz_sanitizer", "case": {"target": sys.argv[2], "artifact_hex": data.hex()},
                  "message": "libFuzzer crash that reproduces only in the ASan + debug-assertions build"}, indent=1))
PY
    echo "VIOLATION property=$ID replay=$f"; viol=1
  done
  if [ $rc -ne 0 ] && [ $viol -eq 0 ]; then incon=1; notes+=("\"$target exited $rc without a crash artifact (see $WORK/fuzz-$target.log)\""); fi
}

case "$ID" in
  C15|C20) : ;;                                  # no generated sub-check worth a coverage-guided run beyond the exhaustive ones
  C01|C02|C06|C10) run_fuzz fuzz_genome 12000 ;; # heavy oracles (~100-200 exec/s under ASan)
  C12) run_fuzz fuzz_text 400000; run_fuzz fuzz_genome 150000 ;;
  *) run_fuzz fuzz_genome 60000 ;;
esac

if [ "$ID" = "C15" ] || [ "$ID" = "C19" ]; then
  (cd "$H" && timeout -k 10 3600 cargo +nightly miri run --bin miri_probe -- 24 120 "$SEED" >"$WORK/miri.log" 2>&1); rc=$?
  line=$(grep '^MIRI-PROBE ok' "$WORK/miri.log")
  if [ $rc -eq 0 ] && [ -n "$line" ]; then notes+=("\"miri: $line\"")
  elif grep -q "Undefined Behavior" "$WORK/miri.log"; then
    mkdir -p "$ROOT/replays"; f="$ROOT/replays/$ID-miri.json"
    python3 -c "import json,sys; print(json.dumps({'property':'$ID','subcheck':'miri_probe','case':{'cmd':'cargo +nightly miri run --bin miri_probe -- 24 120 $SEED'},'message':open('$WORK/miri.log').read()[-3000:]}))" > "$f"
    echo "VIOLATION property=$ID replay=$f"; viol=1
  else incon=1; notes+=("\"miri run failed without a UB report (exit $rc)\""); fi
fi

t1=$(date +%s)
python3 - "$ROOT/evidence/$ID.json" "$((t1-t0))" "$viol" "${notes[@]:-}" <<'PY'
import json, sys
p = sys.argv[1]
try:
    e = json.load(open(p))
except Exception:
    sys.exit(0)
notes = [json.loads(n) for n in sys.argv[4:] if n]
e.setdefault("coverage", {})["thorough_extras"] = {"wall_s": int(sys.argv[2]), "runs": notes}
e["wall_s"] = e.get("wall_s", 0) + int(sys.argv[2])
if int(sys.argv[3]): e["violations"] = e.get("violations", 0) + 1
json.dump(e, open(p, "w"), indent=1)
PY
[ $viol -ne 0 ] && exit 1
[ $incon -ne 0 ] && exit 2
exit 0
