#!/bin/bash
# tools/run_all.sh <quick|thorough> [IDs...] — runs the registered commands one after the other, prints rc and wall time
TIER="${1:-quick}"; shift
IDS=("$@"); [ ${#IDS[@]} -eq 0 ] && IDS=($(for i in $(seq -w 1 20); do echo C$i; done))
cd "$(dirname "$0")/.."
for p in "${IDS[@]}"; do
  s=$(date +%s); ./run $p $TIER > /tmp/runall_${TIER}_$p.log 2>&1; rc=$?; e=$(date +%s)
  echo "$p $TIER rc=$rc $((e-s))s $(grep -c '^VIOLATION' /tmp/runall_${TIER}_$p.log) violation-lines"
done
