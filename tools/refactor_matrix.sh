#!/bin/bash
# tools/refactor_matrix.sh <dir with R*/seeded_out/patchN.diff ...> — false-alarm experiment: every quick check against every
# behaviour-preserving refactor (scratch copies under /tmp/tr). Writes seeded/REFACTORS.tsv (- = silent, X = alarm, ?n = exit n).
cd "$(dirname "$0")/.."
export TS_DIR=/tmp/tr
OUT=seeded/REFACTORS.tsv
IDS=$(for i in $(seq -w 1 20); do echo C$i; done)
[ -f $OUT ] || echo -e "refactor\ttests\t$(echo $IDS | tr ' ' '\t')" > $OUT
for p in "$@"; do
  name=$(echo $p | sed -e 's#.*/\(R[0-9]*\)/seeded_out/patch\([0-9]*\).diff#\1-v\2#' -e 's#.*/refactors/\(R[0-9]*-v[0-9]*\)/patch.diff#\1#')
  grep -q "^$name	" $OUT && continue
  res=$(tools/try_seed_scratch.sh $p - $IDS 2>&1)
  t=$(echo "$res" | grep -c "tests-with-patch: PASS")
  row="$name\t$([ $t -eq 1 ] && echo pass || echo FAIL)"
  for id in $IDS; do
    rc=$(echo "$res" | grep "^check $id:" | sed -n 's/.*rc=\([0-9]*\).*/\1/p')
    case "$rc" in 0) c="-";; 1) c="X";; *) c="?$rc";; esac
    row="$row\t$c"
    [ "$rc" != "0" ] && cp /tmp/tr/seed_run_$id.log /tmp/refactor_${name}_$id.log
  done
  echo -e "$row" | tee -a $OUT
done
