#!/bin/bash
# tools/recheck_seeds.sh [VERIF_SEED] — re-runs the quick check of the targeted property against every seeded change (scratch
# copies under /tmp/ts, /repo untouched) and writes seeded/RECHECK[-seedN].tsv: seed, property checked, exit code (1 = reported).
cd "$(dirname "$0")/.."
SEED="${1:-1}"; export VERIF_SEED=$SEED
OUT=seeded/RECHECK.tsv; [ "$SEED" != "1" ] && OUT=seeded/RECHECK-seed$SEED.tsv
OUT=${RECHECK_OUT:-$OUT}   # optional: RECHECK_OUT, SEED_DIRS (list of seeded/<ID>-v<n> dirs), TS_DIR, VERIF_SRC for parallel streams
: > $OUT
for d in ${SEED_DIRS:-seeded/C*-v*}; do
  s=$(basename $d); id=${s%%-*}
  case "$s" in C06-v4|C16-v13) id=C03;; esac
  line=$(tools/try_seed_scratch.sh $d/patch.diff - $id 2>&1 | grep "^check $id")
  rc=$(echo "$line" | sed -n 's/.*rc=\([0-9]*\).*/\1/p')
  echo -e "$s\t$id\t$rc" | tee -a $OUT
done
tools/try_seed_scratch.sh --clean
