#!/bin/bash
# usage: tools/try_seed_scratch.sh <patch.diff> <demo.rs|-> <ID> [<ID>...]
# Like try_seed.sh, but in scratch copies of /repo and /verif under /tmp/ts (so that /repo and /verif/harness/target
# are not touched, e.g. while a thorough run is in progress). The scratch trees are kept between calls; run with
# --clean to remove them.
set -u
TS=${TS_DIR:-/tmp/ts}
if [ "${1:-}" = "--clean" ]; then git -C /repo worktree remove --force $TS/repo 2>/dev/null; rm -rf $TS; git -C /repo worktree prune; exit 0; fi
PATCH="$(readlink -f "$1")"; DEMO="$2"; shift 2
if [ ! -d $TS/repo ]; then mkdir -p $TS; git -C /repo worktree add --detach $TS/repo HEAD -q; cp /repo/Cargo.lock $TS/repo/; fi
rsync -a --delete --exclude target --exclude replays --exclude evidence --exclude work --exclude .git ${VERIF_SRC:-/verif}/ $TS/verif/
sed -i -e "s#\"[^\"]*/repo/chess\"#\"$TS/repo/chess\"#" -e "s#\"[^\"]*/repo/chess_base\"#\"$TS/repo/chess_base\"#" $TS/verif/harness/Cargo.toml
export VERIF_TARGET_DIR=$TS/target CARGO_TARGET_DIR=$TS/repo-target
cd $TS/repo; git checkout -q -- .; rm -f chess/tests/seed_demo.rs
git apply "$PATCH" || { echo "PATCH-DOES-NOT-APPLY"; exit 3; }
if cargo test --workspace --offline >$TS/seed_tests.log 2>&1; then echo "tests-with-patch: PASS"; else echo "tests-with-patch: FAIL (inadmissible)"; tail -5 $TS/seed_tests.log; fi
if [ "$DEMO" != "-" ]; then
  mkdir -p chess/tests; cp "$DEMO" chess/tests/seed_demo.rs
  if cargo test --offline -p owlchess --test seed_demo >$TS/seed_demo.log 2>&1; then echo "demo-with-patch: PASS (demo does not show the breakage!)"; else echo "demo-with-patch: FAIL (as intended)"; fi
  rm -f chess/tests/seed_demo.rs
fi
unset CARGO_TARGET_DIR
for ID in "$@"; do
  s=$(date +%s); (cd $TS/verif && ./run "$ID" quick >$TS/seed_run_$ID.log 2>&1); rc=$?; e=$(date +%s)
  echo "check $ID: rc=$rc $((e-s))s  $(grep -m1 -A1 '^VIOLATION' $TS/seed_run_$ID.log | tr '\n' ' ' | cut -c1-300)"
done
export CARGO_TARGET_DIR=$TS/repo-target
cd $TS/repo; git checkout -q -- .
if [ "$DEMO" != "-" ]; then
  cp "$DEMO" chess/tests/seed_demo.rs
  if cargo test --offline -p owlchess --test seed_demo >$TS/seed_demo2.log 2>&1; then echo "demo-clean: PASS"; else echo "demo-clean: FAIL (demo is wrong)"; tail -5 $TS/seed_demo2.log; fi
  rm -f chess/tests/seed_demo.rs
fi
