#!/usr/bin/env python3
"""tools/save_seed.py <ID> <n> <needs...> — copies a confirmed seeded change from /tmp/wt/<ID>/seeded_out into /verif/seeded/<ID>-v<n>/"""
import sys, os, shutil, json
pid, n = sys.argv[1], sys.argv[2]
detected_by = sys.argv[3]           # e.g. "C09:parse_soundness(quick)"
needs = sys.argv[4]
import os as _os
src = _os.environ.get("SEED_SRC", f"/tmp/wt/{pid}/seeded_out")
srcn = _os.environ.get("SEED_SRC_N", n)
dst = f"/verif/seeded/{pid}-v{n}"
os.makedirs(dst, exist_ok=True)
shutil.copy(f"{src}/patch{srcn}.diff", f"{dst}/patch.diff")
shutil.copy(f"{src}/demo{srcn}.rs", f"{dst}/demo.rs")
shutil.copy(f"{src}/notes{srcn}.md", f"{dst}/notes.md")
meta = {
    "breaks_property": pid,
    "origin": _os.environ.get("SEED_ORIGIN", "independent sub-agent given only the property text and a scratch worktree (no access to /verif)"),
    "needs_to_manifest": needs,
    "confirmed": {
        "pinned_tests_with_patch": "pass (cargo test --workspace --offline in /repo with the patch applied)",
        "demo_with_patch": "fails", "demo_without_patch": "passes",
        "command": f"tools/try_seed.sh seeded/{pid}-v{n}/patch.diff seeded/{pid}-v{n}/demo.rs {pid}",
    },
    "detected_by": detected_by,
}
json.dump(meta, open(f"{dst}/meta.json", "w"), indent=1)
print("saved", dst)
