#!/usr/bin/env python3
"""tools/design_tables.py — regenerates the two machine-made tables of DESIGN.md: the sub-check table of section 6.0
(from `check table`, i.e. from the code) and the per-change table of section 12.3 (from seeded/*/meta.json)."""
import json, glob, re, subprocess, os
root = os.path.dirname(os.path.dirname(os.path.abspath(__file__)))
txt = open(f"{root}/DESIGN.md").read()

def put(name, body):
    global txt
    a, b = f"<!-- TABLE:{name} -->", f"<!-- /TABLE:{name} -->"
    assert a in txt and b in txt, name
    txt = txt[: txt.index(a) + len(a)] + "\n" + body.rstrip() + "\n" + txt[txt.index(b):]

sub = subprocess.run([f"{root}/harness/target/release/check", "table"], capture_output=True, text=True, check=True).stdout
put("subchecks", sub)

rows = ["| change | what it needs in order to manifest | detected by |", "|---|---|---|"]
def key(d):
    m = re.match(r".*/C(\d+)-v(\d+)$", d)
    return (int(m.group(1)), int(m.group(2)))
for d in sorted(glob.glob(f"{root}/seeded/C*-v*"), key=key):
    m = json.load(open(d + "/meta.json"))
    esc = lambda s: s.replace("|", "\\|").replace("\n", " ")
    rows.append(f"| `{os.path.basename(d)}` | {esc(m['needs_to_manifest'])} | {esc(m['detected_by'])} |")
put("seeds", "\n".join(rows))
open(f"{root}/DESIGN.md", "w").write(txt)
print("subcheck rows:", sub.count("\n") - 2, "seed rows:", len(rows) - 2)
