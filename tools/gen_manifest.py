#!/usr/bin/env python3
"""Regenerates /verif/MANIFEST.json from the table below."""
import json, os, subprocess
ROOT = os.path.dirname(os.path.dirname(os.path.abspath(__file__)))

CHECKS = {}
def add(pid, technique, text, note, design):
    CHECKS[pid] = dict(technique=technique, text=text, note=note, design=design)

exec(open(os.path.join(ROOT, "tools", "manifest_table.py")).read())

ALL = ["C%02d" % i for i in range(1, 21)]
NOT_APPLICABLE = {}
checks = []
for pid in ALL:
    if pid not in CHECKS:
        NOT_APPLICABLE[pid] = "check not built yet in this round (planned: see DESIGN.md section 6)"
        continue
    c = CHECKS[pid]
    checks.append({
        "property_id": pid,
        "quick_cmd": "./run %s quick" % pid,
        "thorough_cmd": "./run %s thorough" % pid,
        "evidence_file": "/verif/evidence/%s.json" % pid,
        "replay_cmd_template": "./run %s --replay {path}" % pid,
        "engine": "owlverif",
        "level_claimed": {"category": "exploration", "text": c["text"], "design_ref": c["design"]},
        "level_note": c["note"],
        "technique": c["technique"],
    })

repo_commits = subprocess.check_output(["git", "-C", "/repo", "log", "--format=%H %s"]).decode().strip().split("\n")
hook_commits = [l.split()[0] for l in repo_commits if "verification hooks" in l or l.split(" ", 1)[1].startswith("verif:")]

manifest = {
    "version": 1,
    "setup_cmd": "./run --setup",
    "hooks": {
        "guard": "cargo feature `verif` of crate owlchess",
        "enable": "the harness depends on owlchess by path with features = [\"verif\"] (harness/Cargo.toml); nothing else enables it",
        "baseline_off_cmd": "cd /repo && cargo test --workspace --no-fail-fast --offline",
        "source_commits": hook_commits,
        "add_only": True,
    },
    "engines": [{
        "name": "owlverif",
        "path": "/verif/harness",
        "serves_properties": [c["property_id"] for c in checks],
        "kind_free_text": "Rust harness: proptest-driven byte-genome generators (16 fixed shards, seeded from VERIF_SEED) with shrinking, "
                          "exhaustive enumeration of finite families, model-based operation histories, an independent mailbox reference "
                          "model of chess as differential oracle; run in two build configurations (release, and release with "
                          "debug-assertions + overflow-checks). cargo-fuzz targets in /verif/fuzz share the same oracles (thorough tier).",
    }],
    "checks": checks,
    "not_applicable": [{"property_id": k, "reason": v} for k, v in NOT_APPLICABLE.items()],
    "notes": "Exit codes: 0 held, 1 violation (VIOLATION line), 2 inconclusive/infrastructure (never a violation). "
             "Known findings: /verif/known_findings.json. See DESIGN.md.",
}
json.dump(manifest, open(os.path.join(ROOT, "MANIFEST.json"), "w"), indent=1)
print("wrote MANIFEST.json with", len(checks), "checks;", len(NOT_APPLICABLE), "not claimed")
