#!/bin/bash
# tools/matrix.sh [seed dirs...] — catch matrix: every quick check against every seeded change, in a scratch
# copy of /repo and /verif under /tmp/mx (so /repo itself is not touched). Writes /verif/seeded/MATRIX.tsv.
# Generated sub-checks run at VERIF_CASES_PERCENT (default 25) of their quick case counts, so an X is a lower
# bound on what the registered quick command finds; exhaustive sub-checks run in full.
set -u
MX=/tmp/mx
rm -rf $MX; mkdir -p $MX
git -C /repo worktree add --detach $MX/repo HEAD -q
cp /repo/Cargo.lock $MX/repo/
rsync -a --exclude target --exclude replays --exclude evidence /verif/ $MX/verif/
sed -i "s#/repo/#$MX/repo/#g" $MX/verif/harness/Cargo.toml
export VERIF_TARGET_DIR=$MX/target
export VERIF_CASES_PERCENT=${VERIF_CASES_PERCENT:-25}
OUT=${MATRIX_OUT:-/verif/seeded/MATRIX.tsv}
SEEDS=("$@"); [ ${#SEEDS[@]} -eq 0 ] && SEEDS=($(ls -d /verif/seeded/C*-v* | xargs -n1 basename))
IDS=$(for i in $(seq -w 1 20); do echo C$i; done)
echo -e "seed\t$(echo $IDS | tr ' ' '\t')" > $OUT
for s in "${SEEDS[@]}"; do
  (cd $MX/repo && git checkout -q -- . && git apply /verif/seeded/$s/patch.diff) || { echo "$s: patch failed"; continue; }
  row="$s"
  for id in $IDS; do
    (cd $MX/verif && ./run $id quick >$MX/log_${s}_$id.txt 2>&1); rc=$?
    case $rc in 0) c="-";; 1) c="X";; *) c="?$rc";; esac
    row="$row\t$c"
  done
  echo -e "$row" | tee -a $OUT
done
(cd $MX/repo && git checkout -q -- .)
git -C /repo worktree remove --force $MX/repo
rm -rf $MX
