#![no_main]
use libfuzzer_sys::fuzz_target;

fuzz_target!(|data: &[u8]| {
    if let Err(e) = owlverif::fuzzmap::run("fuzz_genome", data) {
        panic!("ORACLE-FAILURE {}", e);
    }
});
