//! Independent, deliberately naive reference model of the rules of chess.
//!
//! Mailbox board, no bitboards, no tables, no incremental state. Shares no code with owlchess.
//! Square numbering here: `sq = file + 8 * rank`, a1 = 0, h1 = 7, a8 = 56 (NOT the library's).

use std::fmt::Write as _;

#[derive(Clone, Copy, PartialEq, Eq, Hash, Debug, PartialOrd, Ord)]
pub enum Col {
    W,
    B,
}

impl Col {
    pub fn inv(self) -> Col {
        match self {
            Col::W => Col::B,
            Col::B => Col::W,
        }
    }
    /// rank direction of pawn advance
    pub fn dir(self) -> i8 {
        match self {
            Col::W => 1,
            Col::B => -1,
        }
    }
    pub fn home_rank(self) -> i8 {
        match self {
            Col::W => 0,
            Col::B => 7,
        }
    }
}

#[derive(Clone, Copy, PartialEq, Eq, Hash, Debug, PartialOrd, Ord)]
pub enum Pc {
    P,
    N,
    B,
    R,
    Q,
    K,
}

pub const ALL_PC: [Pc; 6] = [Pc::P, Pc::N, Pc::B, Pc::R, Pc::Q, Pc::K];
pub const PROMO_PC: [Pc; 4] = [Pc::N, Pc::B, Pc::R, Pc::Q];

impl Pc {
    pub fn letter(self) -> char {
        match self {
            Pc::P => 'P',
            Pc::N => 'N',
            Pc::B => 'B',
            Pc::R => 'R',
            Pc::Q => 'Q',
            Pc::K => 'K',
        }
    }
}

pub type Man = (Col, Pc);
pub type Sq = u8;

#[inline]
pub fn file_of(s: Sq) -> i8 {
    (s % 8) as i8
}
#[inline]
pub fn rank_of(s: Sq) -> i8 {
    (s / 8) as i8
}
#[inline]
pub fn mk_sq(file: i8, rank: i8) -> Option<Sq> {
    if (0..8).contains(&file) && (0..8).contains(&rank) {
        Some((file + 8 * rank) as u8)
    } else {
        None
    }
}
pub fn sq_name(s: Sq) -> String {
    format!("{}{}", (b'a' + file_of(s) as u8) as char, (b'1' + rank_of(s) as u8) as char)
}
pub fn parse_sq(s: &str) -> Option<Sq> {
    let b = s.as_bytes();
    if b.len() != 2 || !(b'a'..=b'h').contains(&b[0]) || !(b'1'..=b'8').contains(&b[1]) {
        return None;
    }
    mk_sq((b[0] - b'a') as i8, (b[1] - b'1') as i8)
}
/// true for light squares (h1 is light, a1 is dark)
pub fn is_light(s: Sq) -> bool {
    (file_of(s) + rank_of(s)) % 2 == 1
}

pub fn man_char(m: Man) -> char {
    let c = m.1.letter();
    match m.0 {
        Col::W => c,
        Col::B => c.to_ascii_lowercase(),
    }
}
pub fn char_man(c: char) -> Option<Man> {
    let col = if c.is_ascii_uppercase() { Col::W } else { Col::B };
    let pc = match c.to_ascii_uppercase() {
        'P' => Pc::P,
        'N' => Pc::N,
        'B' => Pc::B,
        'R' => Pc::R,
        'Q' => Pc::Q,
        'K' => Pc::K,
        _ => return None,
    };
    Some((col, pc))
}

/// Castling right indices
pub const WK: usize = 0;
pub const WQ: usize = 1;
pub const BK: usize = 2;
pub const BQ: usize = 3;

pub fn right_idx(c: Col, kingside: bool) -> usize {
    match (c, kingside) {
        (Col::W, true) => WK,
        (Col::W, false) => WQ,
        (Col::B, true) => BK,
        (Col::B, false) => BQ,
    }
}

#[derive(Clone, PartialEq, Eq, Hash, Debug)]
pub struct RefPos {
    pub b: [Option<Man>; 64],
    pub side: Col,
    pub castle: [bool; 4],
    /// square of the pawn that has just made a double step (the library's `ep_source`)
    pub ep: Option<Sq>,
    pub half: u16,
    pub full: u16,
}

#[derive(Clone, Copy, PartialEq, Eq, Hash, Debug, PartialOrd, Ord)]
pub enum Kind {
    Simple,
    CastleK,
    CastleQ,
    Double,
    Ep,
    Promo(Pc),
}

#[derive(Clone, Copy, PartialEq, Eq, Hash, Debug, PartialOrd, Ord)]
pub struct RefMove {
    pub kind: Kind,
    pub man: Man,
    pub from: Sq,
    pub to: Sq,
}

impl RefMove {
    pub fn uci(&self) -> String {
        let mut s = format!("{}{}", sq_name(self.from), sq_name(self.to));
        if let Kind::Promo(p) = self.kind {
            s.push(p.letter().to_ascii_lowercase());
        }
        s
    }
}

const KNIGHT_D: [(i8, i8); 8] = [(1, 2), (2, 1), (2, -1), (1, -2), (-1, -2), (-2, -1), (-2, 1), (-1, 2)];
const KING_D: [(i8, i8); 8] = [(1, 0), (1, 1), (0, 1), (-1, 1), (-1, 0), (-1, -1), (0, -1), (1, -1)];
const ROOK_D: [(i8, i8); 4] = [(1, 0), (-1, 0), (0, 1), (0, -1)];
const BISHOP_D: [(i8, i8); 4] = [(1, 1), (1, -1), (-1, 1), (-1, -1)];

impl RefPos {
    pub fn empty() -> RefPos {
        RefPos { b: [None; 64], side: Col::W, castle: [false; 4], ep: None, half: 0, full: 1 }
    }

    pub fn initial() -> RefPos {
        ref_from_fen("rnbqkbnr/pppppppp/8/8/8/8/PPPPPPPP/RNBQKBNR w KQkq - 0 1").unwrap()
    }

    pub fn king_sq(&self, c: Col) -> Option<Sq> {
        (0..64u8).find(|&s| self.b[s as usize] == Some((c, Pc::K)))
    }

    pub fn count(&self, c: Col) -> usize {
        self.b.iter().filter(|m| matches!(m, Some((cc, _)) if *cc == c)).count()
    }

    /// Does the man on `from` reach `target` by its capture geometry (blockers considered,
    /// content of `target` ignored)?
    pub fn reaches(&self, from: Sq, target: Sq) -> bool {
        let (c, p) = match self.b[from as usize] {
            Some(m) => m,
            None => return false,
        };
        if from == target {
            return false;
        }
        let df = file_of(target) - file_of(from);
        let dr = rank_of(target) - rank_of(from);
        match p {
            Pc::P => df.abs() == 1 && dr == c.dir(),
            Pc::N => (df.abs() == 1 && dr.abs() == 2) || (df.abs() == 2 && dr.abs() == 1),
            Pc::K => df.abs() <= 1 && dr.abs() <= 1,
            Pc::B => df.abs() == dr.abs() && self.clear_between(from, target),
            Pc::R => (df == 0 || dr == 0) && self.clear_between(from, target),
            Pc::Q => (df == 0 || dr == 0 || df.abs() == dr.abs()) && self.clear_between(from, target),
        }
    }

    /// All squares strictly between two aligned squares are empty
    fn clear_between(&self, a: Sq, b: Sq) -> bool {
        let sf = (file_of(b) - file_of(a)).signum();
        let sr = (rank_of(b) - rank_of(a)).signum();
        let (mut f, mut r) = (file_of(a) + sf, rank_of(a) + sr);
        while (f, r) != (file_of(b), rank_of(b)) {
            if self.b[mk_sq(f, r).unwrap() as usize].is_some() {
                return false;
            }
            f += sf;
            r += sr;
        }
        true
    }

    pub fn attackers(&self, target: Sq, by: Col) -> Vec<Sq> {
        (0..64u8)
            .filter(|&s| matches!(self.b[s as usize], Some((c, _)) if c == by) && self.reaches(s, target))
            .collect()
    }

    pub fn is_attacked(&self, target: Sq, by: Col) -> bool {
        (0..64u8).any(|s| matches!(self.b[s as usize], Some((c, _)) if c == by) && self.reaches(s, target))
    }

    pub fn in_check(&self, c: Col) -> bool {
        match self.king_sq(c) {
            Some(k) => self.is_attacked(k, c.inv()),
            None => false,
        }
    }

    /// Pseudo-legal moves of the side to move (castling requires: right, king and rook at home,
    /// empty squares between, king not in check, crossed square not attacked).
    pub fn pseudo_legal(&self) -> Vec<RefMove> {
        let us = self.side;
        let mut out = Vec::with_capacity(64);
        for from in 0..64u8 {
            let man = match self.b[from as usize] {
                Some(m) if m.0 == us => m,
                _ => continue,
            };
            let (f, r) = (file_of(from), rank_of(from));
            match man.1 {
                Pc::P => {
                    let d = us.dir();
                    let last = if us == Col::W { 7 } else { 0 };
                    let start = if us == Col::W { 1 } else { 6 };
                    let push = |out: &mut Vec<RefMove>, to: Sq| {
                        if rank_of(to) == last {
                            for p in PROMO_PC {
                                out.push(RefMove { kind: Kind::Promo(p), man, from, to });
                            }
                        } else {
                            out.push(RefMove { kind: Kind::Simple, man, from, to });
                        }
                    };
                    if let Some(to) = mk_sq(f, r + d) {
                        if self.b[to as usize].is_none() {
                            push(&mut out, to);
                            if r == start {
                                let to2 = mk_sq(f, r + 2 * d).unwrap();
                                if self.b[to2 as usize].is_none() {
                                    out.push(RefMove { kind: Kind::Double, man, from, to: to2 });
                                }
                            }
                        }
                    }
                    for df in [-1, 1] {
                        if let Some(to) = mk_sq(f + df, r + d) {
                            if matches!(self.b[to as usize], Some((c, _)) if c != us) {
                                push(&mut out, to);
                            }
                        }
                    }
                    // en passant
                    if let Some(ep) = self.ep {
                        if rank_of(ep) == r
                            && (file_of(ep) - f).abs() == 1
                            && self.b[ep as usize] == Some((us.inv(), Pc::P))
                        {
                            if let Some(to) = mk_sq(file_of(ep), r + d) {
                                if self.b[to as usize].is_none() {
                                    out.push(RefMove { kind: Kind::Ep, man, from, to });
                                }
                            }
                        }
                    }
                }
                Pc::N | Pc::K => {
                    let ds = if man.1 == Pc::N { &KNIGHT_D } else { &KING_D };
                    for &(df, dr) in ds {
                        if let Some(to) = mk_sq(f + df, r + dr) {
                            if !matches!(self.b[to as usize], Some((c, _)) if c == us) {
                                out.push(RefMove { kind: Kind::Simple, man, from, to });
                            }
                        }
                    }
                    if man.1 == Pc::K {
                        self.castling_moves(&mut out);
                    }
                }
                Pc::B | Pc::R | Pc::Q => {
                    let mut dirs: Vec<(i8, i8)> = Vec::new();
                    if man.1 != Pc::B {
                        dirs.extend_from_slice(&ROOK_D);
                    }
                    if man.1 != Pc::R {
                        dirs.extend_from_slice(&BISHOP_D);
                    }
                    for (df, dr) in dirs {
                        let (mut cf, mut cr) = (f + df, r + dr);
                        while let Some(to) = mk_sq(cf, cr) {
                            match self.b[to as usize] {
                                None => out.push(RefMove { kind: Kind::Simple, man, from, to }),
                                Some((c, _)) => {
                                    if c != us {
                                        out.push(RefMove { kind: Kind::Simple, man, from, to });
                                    }
                                    break;
                                }
                            }
                            cf += df;
                            cr += dr;
                        }
                    }
                }
            }
        }
        out
    }

    fn castling_moves(&self, out: &mut Vec<RefMove>) {
        let us = self.side;
        let hr = us.home_rank();
        let e = mk_sq(4, hr).unwrap();
        if self.b[e as usize] != Some((us, Pc::K)) {
            return;
        }
        let them = us.inv();
        // kingside
        if self.castle[right_idx(us, true)]
            && self.b[mk_sq(7, hr).unwrap() as usize] == Some((us, Pc::R))
            && self.b[mk_sq(5, hr).unwrap() as usize].is_none()
            && self.b[mk_sq(6, hr).unwrap() as usize].is_none()
            && !self.is_attacked(e, them)
            && !self.is_attacked(mk_sq(5, hr).unwrap(), them)
        {
            out.push(RefMove { kind: Kind::CastleK, man: (us, Pc::K), from: e, to: mk_sq(6, hr).unwrap() });
        }
        if self.castle[right_idx(us, false)]
            && self.b[mk_sq(0, hr).unwrap() as usize] == Some((us, Pc::R))
            && self.b[mk_sq(1, hr).unwrap() as usize].is_none()
            && self.b[mk_sq(2, hr).unwrap() as usize].is_none()
            && self.b[mk_sq(3, hr).unwrap() as usize].is_none()
            && !self.is_attacked(e, them)
            && !self.is_attacked(mk_sq(3, hr).unwrap(), them)
        {
            out.push(RefMove { kind: Kind::CastleQ, man: (us, Pc::K), from: e, to: mk_sq(2, hr).unwrap() });
        }
    }

    /// Moves the men only (no bookkeeping); used for the legality test.
    fn move_men(&mut self, m: &RefMove) {
        let us = m.man.0;
        self.b[m.from as usize] = None;
        match m.kind {
            Kind::Simple | Kind::Double => self.b[m.to as usize] = Some(m.man),
            Kind::Promo(p) => self.b[m.to as usize] = Some((us, p)),
            Kind::Ep => {
                self.b[m.to as usize] = Some(m.man);
                let victim = mk_sq(file_of(m.to), rank_of(m.from)).unwrap();
                self.b[victim as usize] = None;
            }
            Kind::CastleK => {
                let hr = us.home_rank();
                self.b[m.to as usize] = Some(m.man);
                self.b[mk_sq(7, hr).unwrap() as usize] = None;
                self.b[mk_sq(5, hr).unwrap() as usize] = Some((us, Pc::R));
            }
            Kind::CastleQ => {
                let hr = us.home_rank();
                self.b[m.to as usize] = Some(m.man);
                self.b[mk_sq(0, hr).unwrap() as usize] = None;
                self.b[mk_sq(3, hr).unwrap() as usize] = Some((us, Pc::R));
            }
        }
    }

    pub fn is_legal_pseudo(&self, m: &RefMove) -> bool {
        let mut c = self.clone();
        c.move_men(m);
        !c.in_check(self.side)
    }

    pub fn legal(&self) -> Vec<RefMove> {
        self.pseudo_legal().into_iter().filter(|m| self.is_legal_pseudo(m)).collect()
    }

    pub fn has_legal(&self) -> bool {
        self.pseudo_legal().iter().any(|m| self.is_legal_pseudo(m))
    }

    /// Is the move a capture (destination holds an enemy man, or en passant)?
    pub fn is_capture(&self, m: &RefMove) -> bool {
        m.kind == Kind::Ep || self.b[m.to as usize].is_some()
    }

    /// Applies a (pseudo-)legal move by the rules, with all bookkeeping. Counters saturate at
    /// `u16::MAX` ("never wraps").
    pub fn apply(&self, m: &RefMove) -> RefPos {
        let mut n = self.clone();
        let us = self.side;
        let capture = self.is_capture(m);
        n.move_men(m);
        // castling rights: king moved, rook moved, rook captured at home
        let touch = |n: &mut RefPos, s: Sq| {
            for (c, hr) in [(Col::W, 0i8), (Col::B, 7i8)] {
                if s == mk_sq(4, hr).unwrap() {
                    n.castle[right_idx(c, true)] = false;
                    n.castle[right_idx(c, false)] = false;
                }
                if s == mk_sq(7, hr).unwrap() {
                    n.castle[right_idx(c, true)] = false;
                }
                if s == mk_sq(0, hr).unwrap() {
                    n.castle[right_idx(c, false)] = false;
                }
            }
        };
        // A right can only be lost through its own king/rook leaving the home square or the
        // rook being captured there; since a right implies the man is at home, "anything moves
        // from or to a home square" is the same condition.
        touch(&mut n, m.from);
        touch(&mut n, m.to);
        n.ep = if m.kind == Kind::Double { Some(m.to) } else { None };
        if m.man.1 == Pc::P || capture {
            n.half = 0;
        } else {
            n.half = self.half.saturating_add(1);
        }
        if us == Col::B {
            n.full = self.full.saturating_add(1);
        }
        n.side = us.inv();
        n
    }

    // ---------------------------------------------------------------------------------
    // Validity / normalisation (C11)

    /// All rejection reasons that hold on this raw position (empty = valid).
    pub fn rejections(&self) -> Vec<Reject> {
        let mut v = Vec::new();
        if let Some(p) = self.ep {
            let want = if self.side == Col::W { 4 } else { 3 };
            if rank_of(p) != want {
                v.push(Reject::InvalidEnpassant(p));
            }
        }
        for c in [Col::W, Col::B] {
            if self.count(c) > 16 {
                v.push(Reject::TooManyPieces(c));
            }
            let kings = self.b.iter().filter(|m| **m == Some((c, Pc::K))).count();
            if kings == 0 {
                v.push(Reject::NoKing(c));
            }
            if kings > 1 {
                v.push(Reject::TooManyKings(c));
            }
        }
        for s in 0..64u8 {
            if matches!(self.b[s as usize], Some((_, Pc::P))) && (rank_of(s) == 0 || rank_of(s) == 7) {
                v.push(Reject::InvalidPawn(s));
            }
        }
        let opp = self.side.inv();
        for s in 0..64u8 {
            if self.b[s as usize] == Some((opp, Pc::K)) && self.is_attacked(s, self.side) {
                v.push(Reject::OpponentKingAttacked);
                break;
            }
        }
        v
    }

    pub fn is_valid(&self) -> bool {
        self.rejections().is_empty()
    }

    /// The normalisation the validation gate is allowed to perform.
    pub fn normalised(&self) -> RefPos {
        let mut n = self.clone();
        for (c, hr) in [(Col::W, 0i8), (Col::B, 7i8)] {
            let king_home = self.b[mk_sq(4, hr).unwrap() as usize] == Some((c, Pc::K));
            let rook_h = self.b[mk_sq(7, hr).unwrap() as usize] == Some((c, Pc::R));
            let rook_a = self.b[mk_sq(0, hr).unwrap() as usize] == Some((c, Pc::R));
            if !(king_home && rook_h) {
                n.castle[right_idx(c, true)] = false;
            }
            if !(king_home && rook_a) {
                n.castle[right_idx(c, false)] = false;
            }
        }
        if let Some(p) = self.ep {
            let behind = mk_sq(file_of(p), rank_of(p) + self.side.dir());
            let ok = self.b[p as usize] == Some((self.side.inv(), Pc::P))
                && matches!(behind, Some(s) if self.b[s as usize].is_none());
            if !ok {
                n.ep = None;
            }
        }
        n
    }

    // ---------------------------------------------------------------------------------
    // Outcome (C07 / C14)

    pub fn insufficient_material(&self) -> bool {
        let mut others: Vec<(Pc, Sq)> = Vec::new();
        for s in 0..64u8 {
            if let Some((_, p)) = self.b[s as usize] {
                if p != Pc::K {
                    others.push((p, s));
                }
            }
        }
        if others.is_empty() {
            return true;
        }
        if others.len() == 1 && others[0].0 == Pc::N {
            return true;
        }
        if others.iter().all(|(p, _)| *p == Pc::B) {
            let l = is_light(others[0].1);
            return others.iter().all(|(_, s)| is_light(*s) == l);
        }
        false
    }

    pub fn outcome(&self) -> RefOutcome {
        if !self.has_legal() {
            return if self.in_check(self.side) {
                RefOutcome::Checkmate { winner: self.side.inv() }
            } else {
                RefOutcome::Stalemate
            };
        }
        let insuf = self.insufficient_material();
        if insuf || self.half >= 150 {
            return RefOutcome::Mandatory { insufficient: insuf, moves75: self.half >= 150 };
        }
        if self.half >= 100 {
            return RefOutcome::Claimable;
        }
        RefOutcome::None
    }

    // ---------------------------------------------------------------------------------
    // SAN writer (PGN standard)

    pub fn san(&self, m: &RefMove, legal: &[RefMove]) -> String {
        let mut s = String::new();
        match m.kind {
            Kind::CastleK => s.push_str("O-O"),
            Kind::CastleQ => s.push_str("O-O-O"),
            _ => {
                if m.man.1 == Pc::P {
                    if file_of(m.from) != file_of(m.to) {
                        s.push((b'a' + file_of(m.from) as u8) as char);
                        s.push('x');
                    }
                    s.push_str(&sq_name(m.to));
                    if let Kind::Promo(p) = m.kind {
                        s.push('=');
                        s.push(p.letter());
                    }
                } else {
                    s.push(m.man.1.letter());
                    let others: Vec<&RefMove> = legal
                        .iter()
                        .filter(|o| o.man == m.man && o.to == m.to && o.from != m.from)
                        .collect();
                    if !others.is_empty() {
                        let same_file = others.iter().any(|o| file_of(o.from) == file_of(m.from));
                        let same_rank = others.iter().any(|o| rank_of(o.from) == rank_of(m.from));
                        if !same_file {
                            s.push((b'a' + file_of(m.from) as u8) as char);
                        } else if !same_rank {
                            s.push((b'1' + rank_of(m.from) as u8) as char);
                        } else {
                            s.push_str(&sq_name(m.from));
                        }
                    }
                    if self.b[m.to as usize].is_some() {
                        s.push('x');
                    }
                    s.push_str(&sq_name(m.to));
                }
            }
        }
        let n = self.apply(m);
        if n.in_check(n.side) {
            if n.has_legal() {
                s.push('+');
            } else {
                s.push('#');
            }
        }
        s
    }

    // ---------------------------------------------------------------------------------
    // FEN

    pub fn fen(&self) -> String {
        let mut s = String::new();
        for r in (0..8).rev() {
            let mut run = 0;
            for f in 0..8 {
                match self.b[mk_sq(f, r).unwrap() as usize] {
                    None => run += 1,
                    Some(m) => {
                        if run > 0 {
                            write!(s, "{}", run).unwrap();
                            run = 0;
                        }
                        s.push(man_char(m));
                    }
                }
            }
            if run > 0 {
                write!(s, "{}", run).unwrap();
            }
            if r > 0 {
                s.push('/');
            }
        }
        s.push(' ');
        s.push(if self.side == Col::W { 'w' } else { 'b' });
        s.push(' ');
        if self.castle.iter().all(|x| !x) {
            s.push('-');
        } else {
            for (i, ch) in ['K', 'Q', 'k', 'q'].iter().enumerate() {
                if self.castle[i] {
                    s.push(*ch);
                }
            }
        }
        s.push(' ');
        match self.ep {
            None => s.push('-'),
            Some(p) => {
                // target square: behind the pawn, on the rank implied by the side to move
                let tr = if self.side == Col::W { 5 } else { 2 };
                s.push_str(&sq_name(mk_sq(file_of(p), tr).unwrap()));
            }
        }
        write!(s, " {} {}", self.half, self.full).unwrap();
        s
    }

    /// Position key used for repetition: squares, side, rights, mark.
    pub fn rep_key(&self) -> ([Option<Man>; 64], Col, [bool; 4], Option<Sq>) {
        (self.b, self.side, self.castle, self.ep)
    }
}

#[derive(Clone, Copy, PartialEq, Eq, Hash, Debug)]
pub enum Reject {
    InvalidEnpassant(Sq),
    TooManyPieces(Col),
    NoKing(Col),
    TooManyKings(Col),
    InvalidPawn(Sq),
    OpponentKingAttacked,
}

#[derive(Clone, Copy, PartialEq, Eq, Hash, Debug)]
pub enum RefOutcome {
    Checkmate { winner: Col },
    Stalemate,
    Mandatory { insufficient: bool, moves75: bool },
    Claimable,
    None,
}

/// Strict canonical FEN reader: six fields, single spaces, digits never adjacent, rights in KQkq
/// order, plain decimal counters without sign or leading zeros (except "0").
pub fn ref_from_fen(s: &str) -> Result<RefPos, String> {
    let parts: Vec<&str> = s.split(' ').collect();
    if parts.len() != 6 {
        return Err(format!("expected 6 fields, got {}", parts.len()));
    }
    let mut p = RefPos::empty();
    let ranks: Vec<&str> = parts[0].split('/').collect();
    if ranks.len() != 8 {
        return Err("expected 8 ranks".into());
    }
    for (i, rk) in ranks.iter().enumerate() {
        let r = 7 - i as i8;
        let mut f = 0i8;
        let mut prev_digit = false;
        if rk.is_empty() {
            return Err("empty rank".into());
        }
        for ch in rk.chars() {
            if let Some(d) = ch.to_digit(10) {
                if prev_digit {
                    return Err("adjacent digits".into());
                }
                if !(1..=8).contains(&d) {
                    return Err("bad digit".into());
                }
                f += d as i8;
                prev_digit = true;
            } else {
                prev_digit = false;
                let m = char_man(ch).ok_or_else(|| format!("bad man char {:?}", ch))?;
                if f >= 8 {
                    return Err("rank overflow".into());
                }
                p.b[mk_sq(f, r).unwrap() as usize] = Some(m);
                f += 1;
            }
            if f > 8 {
                return Err("rank overflow".into());
            }
        }
        if f != 8 {
            return Err("rank underflow".into());
        }
    }
    p.side = match parts[1] {
        "w" => Col::W,
        "b" => Col::B,
        _ => return Err("bad side".into()),
    };
    if parts[2] != "-" {
        let order = "KQkq";
        let mut last: i32 = -1;
        if parts[2].is_empty() {
            return Err("empty rights".into());
        }
        for ch in parts[2].chars() {
            let i = order.find(ch).ok_or("bad rights char")? as i32;
            if i <= last {
                return Err("rights out of order".into());
            }
            last = i;
            p.castle[i as usize] = true;
        }
    }
    if parts[3] != "-" {
        let t = parse_sq(parts[3]).ok_or("bad ep square")?;
        let want = if p.side == Col::W { 5 } else { 2 };
        if rank_of(t) != want {
            return Err("ep square on wrong rank".into());
        }
        let pr = if p.side == Col::W { 4 } else { 3 };
        p.ep = Some(mk_sq(file_of(t), pr).unwrap());
    }
    let num = |t: &str| -> Result<u16, String> {
        if t.is_empty() || !t.bytes().all(|b| b.is_ascii_digit()) || (t.len() > 1 && t.starts_with('0')) {
            return Err(format!("bad counter {:?}", t));
        }
        t.parse::<u16>().map_err(|e| e.to_string())
    };
    p.half = num(parts[4])?;
    p.full = num(parts[5])?;
    Ok(p)
}

/// perft through the reference model
pub fn perft(p: &RefPos, depth: u32) -> u64 {
    if depth == 0 {
        return 1;
    }
    let ms = p.legal();
    if depth == 1 {
        return ms.len() as u64;
    }
    ms.iter().map(|m| perft(&p.apply(m), depth - 1)).sum()
}
