//! C12 — every text parser is total: malformed input gives an error, never a panic.

use crate::conv::*;
use crate::engine::*;
use crate::gen::positions::gen_position;
use crate::gen::raw::gen_raw;
use crate::gen::strings::*;
use crate::gen::Cursor;
use crate::refmodel::*;
use crate::{ensure, fail};
use owlchess::chain::MoveChain;
use owlchess::moves::{san, uci};
use owlchess::types::{CastlingRights, Cell, Color, Coord};
use owlchess::{Board, Move, RawBoard};
use serde_json::{json, Value};
use std::str::FromStr;

pub const ENTRIES: [&str; 11] =
    ["fen_board", "fen_raw", "uci_move", "from_uci", "san_move", "from_san", "uci_list", "coord", "cell", "color", "rights"];

/// Positions used by the entry points that need one.
pub const POSITIONS: [&str; 8] = [
    "rnbqkbnr/pppppppp/8/8/8/8/PPPPPPPP/RNBQKBNR w KQkq - 0 1",
    "r3k2r/p1ppqpb1/bn2pnp1/3PN3/1p2P3/2N2Q1p/PPPBBPPP/R3K2R w KQkq - 0 1",
    "r2q1rk1/pP1p2pp/Q4n2/bbp1p3/Np6/1B3NBn/pPPP1PPP/R3K2R b KQ - 0 1",
    "3K4/3p4/8/3PpP2/8/5p2/6P1/2k5 w - e6 0 1",
    "2n2n1n/3P2P1/8/8/8/8/3K1k2/8 w - - 0 1",
    "7k/8/8/8/8/8/8/K7 b - - 65535 65535",
    "6k1/8/8/8/8/Q1Q5/7K/Q7 w - - 0 1",
    "4k3/6K1/8/n1n5/8/1R6/8/n1n5 b - - 0 1",
];

fn board_of(fen: &str) -> Result<Board, Failure> {
    let r = ref_from_fen(fen).map_err(|e| Failure::new(format!("harness: bad position fen: {}", e)))?;
    Board::try_from(raw_from_ref(&r)).map_err(|e| Failure::new(format!("harness: position refused: {}", e)))
}

/// Runs one entry point on one string. Any panic is caught by the engine and reported as a violation.
pub fn run_entry(entry: &str, text: &str, fen: &str, stats: &mut Stats) -> CheckResult {
    let mut accepted = false;
    let mut deep = false;
    match entry {
        "fen_board" => match Board::from_fen(text) {
            Ok(b) => {
                accepted = true;
                ensure!(Board::from_str(text).as_ref() == Ok(&b), "Board::from_str differs from from_fen on {:?}", text);
                match MoveChain::from_fen(text) {
                    Ok(c) => ensure!(c.last() == &b && c.len() == 0, "MoveChain::from_fen differs from Board::from_fen on {:?}", text),
                    Err(e) => fail!("MoveChain::from_fen refused {:?} which Board::from_fen accepts: {}", text, e),
                }
                let t = b.to_string();
                match Board::from_fen(&t) {
                    Ok(b2) => ensure!(b2 == b, "Board: parse(format(v)) != v for {:?}", text),
                    Err(e) => fail!("Board: formatted value {:?} of accepted text {:?} does not parse: {}", t, text, e),
                }
            }
            Err(e) => deep = !matches!(e, owlchess::board::FenParseError::Fen(owlchess::board::RawFenParseError::NonAscii | owlchess::board::RawFenParseError::Board(_))),
        },
        "fen_raw" => match RawBoard::from_fen(text) {
            Ok(r) => {
                accepted = true;
                let t = r.to_string();
                match RawBoard::from_fen(&t) {
                    Ok(r2) => ensure!(r2 == r, "RawBoard: parse(format(v)) != v for {:?}", text),
                    Err(e) => fail!("RawBoard: formatted value {:?} of accepted text {:?} does not parse: {}", t, text, e),
                }
            }
            Err(e) => deep = !matches!(e, owlchess::board::RawFenParseError::NonAscii | owlchess::board::RawFenParseError::Board(_)),
        },
        "uci_move" => match uci::Move::from_str(text) {
            Ok(m) => {
                accepted = true;
                ensure!(uci::Move::from_str(&m.to_string()) == Ok(m), "uci::Move: parse(format(v)) != v for {:?}", text);
            }
            Err(e) => deep = e != uci::RawParseError::BadLength,
        },
        "from_uci" => {
            let b = board_of(fen)?;
            let a = Move::from_uci(text, &b);
            let s = Move::from_uci_semilegal(text, &b);
            let l = Move::from_uci_legal(text, &b);
            if let Ok(m) = &a {
                accepted = true;
                ensure!(m.is_well_formed(), "from_uci returned a move that is not well-formed for {:?}", text);
                ensure!(Move::from_uci(&m.to_string(), &b) == Ok(*m), "Move: parse(format(v)) != v for {:?}", text);
            }
            if let Ok(m) = &s {
                ensure!(a.as_ref() == Ok(m) && m.is_semilegal(&b), "from_uci_semilegal inconsistent for {:?}", text);
            }
            if let Ok(m) = &l {
                ensure!(s.as_ref() == Ok(m) && m.validate(&b).is_ok(), "from_uci_legal inconsistent for {:?}", text);
            }
            deep = a.is_ok() && l.is_err();
        }
        "san_move" => match san::Move::from_str(text) {
            Ok(m) => {
                accepted = true;
                // formatting a parsed SAN value may not panic; pawn data stored as Simple cannot come from the parser
                let t = m.to_string();
                match san::Move::from_str(&t) {
                    Ok(m2) => ensure!(m2 == m, "san::Move: parse(format(v)) != v for {:?} (formatted {:?})", text, t),
                    Err(e) => fail!("san::Move: formatted value {:?} of accepted text {:?} does not parse: {}", t, text, e),
                }
                let _ = m.styled(san::Style::Utf8).to_string();
            }
            Err(e) => deep = !matches!(e, san::RawParseError::EmptyString | san::RawParseError::PawnMoveTooShort),
        },
        "from_san" => {
            let b = board_of(fen)?;
            match Move::from_san(text, &b) {
                Ok(m) => {
                    accepted = true;
                    ensure!(m.validate(&b).is_ok(), "from_san({:?}) returned a move that is not legal", text);
                    let t = m.san(&b).map_err(|e| Failure::new(format!("san() of the returned move failed: {}", e)))?.to_string();
                    ensure!(Move::from_san(&t, &b) == Ok(m), "Move via SAN: parse(format(v)) != v for {:?} (formatted {:?})", text, t);
                }
                Err(e) => deep = matches!(e, san::ParseError::Convert(_)),
            }
        }
        "uci_list" => {
            let b = board_of(fen)?;
            let mut chain = MoveChain::new(b.clone());
            let res = chain.push_uci_list(text);
            accepted = res.is_ok() && chain.len() > 0;
            deep = chain.len() > 0;
            if let Err(e) = &res {
                ensure!(e.pos == chain.len(), "push_uci_list error position {} but {} moves were pushed", e.pos, chain.len());
            }
            let t = chain.uci().to_string();
            match MoveChain::from_uci_list(b.clone(), &t) {
                Ok(c2) => ensure!(c2 == chain, "chain rebuilt from its own UCI text differs (text {:?})", t),
                Err(e) => fail!("from_uci_list refused the chain's own UCI text {:?}: {}", t, e),
            }
            let _ = MoveChain::from_uci_list(b, text).map(|c| c.len());
            // Follow the library's own idea of the game up to three plies further, then take every move the UCI reader
            // returns in the final position through value -> SAN text -> value: a value that a parser entry point has
            // produced (the chain, the move) must be formattable and read back as itself.
            let mut h = text.bytes().fold(0xcbf2_9ce4_8422_2325u64, |a, c| (a ^ c as u64).wrapping_mul(0x100_0000_01b3));
            for _ in 0..3 {
                let l = owlchess::movegen::legal::gen_all(chain.last());
                if l.is_empty() {
                    break;
                }
                // castling first, half of the time: a right that should be gone shows when it is used
                let castlings: Vec<Move> = l.iter().filter(|m| matches!(m.kind(), owlchess::moves::MoveKind::CastlingKingside | owlchess::moves::MoveKind::CastlingQueenside)).cloned().collect();
                let m = if !castlings.is_empty() && h & 1 == 0 { castlings[(h >> 1) as usize % castlings.len()] } else { l[(h % l.len() as u64) as usize] };
                h = crate::gen::splitmix(h);
                if chain.push(m).is_err() {
                    break;
                }
            }
            let last = chain.last().clone();
            for m in owlchess::movegen::legal::gen_all(&last).iter() {
                // a terse SAN text put together here from piece letter and destination (not by the library's writer)
                if let (Some(pc), owlchess::moves::MoveKind::Simple) = (m.src_cell().piece(), m.kind()) {
                    if pc != owlchess::types::Piece::Pawn {
                        let st0 = format!("{}{}", pc_from_lib(pc).letter(), m.dst());
                        if let Ok(v) = Move::from_san(&st0, &last) {
                            match v.san(&last) {
                                Ok(sv) => {
                                    let st = sv.to_string();
                                    ensure!(Move::from_san(&st, &last) == Ok(v), "after list {:?} (+ up to 3 plies) in {}: {:?} is read as {}, written {:?}, which does not read back as the same move", text, last.as_fen(), st0, v, st);
                                }
                                Err(e) => fail!("after list {:?} (+ up to 3 plies) in {}: {:?} is read as the move {}, which cannot be written in SAN: {}", text, last.as_fen(), st0, v, e),
                            }
                        }
                    }
                }
                let ut = m.to_string();
                if let Ok(v) = Move::from_uci_legal(&ut, &last) {
                    ensure!(Move::from_uci_legal(&v.to_string(), &last) == Ok(v), "after list {:?}: UCI text of the move read from {:?} does not read back", text, ut);
                    match v.san(&last) {
                        Ok(sv) => {
                            let st = sv.to_string();
                            ensure!(Move::from_san(&st, &last) == Ok(v), "after list {:?} (+ up to 3 plies) in {}: move read from {:?} is written {:?}, which does not read back as the same move", text, last.as_fen(), ut, st);
                        }
                        Err(e) => fail!("after list {:?} (+ up to 3 plies) in {}: the move read from {:?} cannot be written in SAN: {}", text, last.as_fen(), ut, e),
                    }
                }
            }
        }
        "coord" => {
            if let Ok(c) = Coord::from_str(text) {
                accepted = true;
                ensure!(Coord::from_str(&c.to_string()) == Ok(c), "Coord round trip for {:?}", text);
            }
        }
        "cell" => {
            if let Ok(c) = Cell::from_str(text) {
                accepted = true;
                ensure!(Cell::from_str(&c.to_string()) == Ok(c), "Cell round trip for {:?}", text);
            }
        }
        "color" => {
            if let Ok(c) = Color::from_str(text) {
                accepted = true;
                ensure!(Color::from_str(&c.to_string()) == Ok(c), "Color round trip for {:?}", text);
            }
        }
        "rights" => {
            if let Ok(c) = CastlingRights::from_str(text) {
                accepted = true;
                ensure!(CastlingRights::from_str(&c.to_string()) == Ok(c), "CastlingRights round trip for {:?}", text);
            }
        }
        _ => fail!("harness: unknown entry {:?}", entry),
    }
    stats.label_if(accepted, "accepted");
    stats.label_if(deep, "deep_rejection");
    stats.label_if(!text.is_ascii(), "non_ascii");
    stats.label(&format!("entry:{}", entry));
    if accepted || deep || !text.is_ascii() {
        stats.nontrivial(&(entry.to_string(), text.to_string(), fen.to_string()));
    }
    Ok(())
}

fn check_case(case: &Value, stats: &mut Stats) -> CheckResult {
    let entry = case["entry"].as_str().unwrap_or("");
    let text = case["text"].as_str().unwrap_or("");
    let fen = case["fen"].as_str().unwrap_or(POSITIONS[0]);
    run_entry(entry, text, fen, stats)
}

fn multibyte_mix(cur: &mut Cursor, base: &str) -> String {
    // replace / insert multi-byte characters so that byte lengths coincide with valid lengths
    let mut chars: Vec<char> = base.chars().collect();
    let n = 1 + cur.below(2);
    for _ in 0..n {
        let c = MULTIBYTE[cur.below(MULTIBYTE.len())];
        if chars.is_empty() || cur.bool() {
            let i = cur.below(chars.len() + 1);
            chars.insert(i, c);
        } else {
            let i = cur.below(chars.len());
            chars[i] = c;
        }
    }
    chars.into_iter().collect()
}

fn gen_case(cur: &mut Cursor) -> Value {
    let entry = ENTRIES[cur.below(ENTRIES.len())];
    let fen = POSITIONS[cur.below(POSITIONS.len())];
    let pos = ref_from_fen(fen).unwrap();
    let legal = pos.legal();
    let kind = cur.below(10);
    let text = match entry {
        "fen_board" | "fen_raw" => match kind {
            0..=2 => grammar_fen(cur),
            3..=5 => {
                let (p, _) = if cur.bool() { gen_raw(cur) } else { gen_position(cur) };
                mutate(cur, &p.fen(), FEN_ALPHABET)
            }
            6 => {
                let (p, _) = gen_position(cur);
                multibyte_mix(cur, &p.fen())
            }
            7 if cur.bool() => {
                let t = crate::gen::positions::CORPUS[cur.below(crate::gen::positions::CORPUS.len())];
                mutate(cur, t, FEN_ALPHABET)
            }
            7 => alphabet_string(cur, FEN_ALPHABET, 90),
            8 => {
                // long inputs
                let unit = alphabet_string(cur, FEN_ALPHABET, 12);
                unit.repeat(1 + cur.below(900))
            }
            _ => alphabet_string(cur, "", 40),
        },
        "uci_move" | "from_uci" => match kind {
            0..=2 => {
                let s = pos.pseudo_legal();
                let m = s[cur.below(s.len())];
                mutate(cur, &m.uci(), MOVE_ALPHABET)
            }
            3 | 4 => {
                let s = pos.pseudo_legal();
                let t = s[cur.below(s.len())].uci();
                multibyte_mix(cur, &t)
            }
            5 | 6 => {
                // exactly 4 or 5 bytes with multi-byte characters inside
                let mut t = String::new();
                let target = 4 + cur.below(2);
                while t.len() < target {
                    let c = pick_char(cur, "abcdefgh12345678nbrq0");
                    if t.len() + c.len_utf8() <= target {
                        t.push(c);
                    }
                }
                t
            }
            7 => all_uci_like(cur),
            _ => alphabet_string(cur, MOVE_ALPHABET, 8),
        },
        "san_move" | "from_san" => match kind {
            0..=2 => grammar_san(cur, &pos).text(),
            3 | 4 => {
                let m = legal[cur.below(legal.len())];
                mutate(cur, &pos.san(&m, &legal), MOVE_ALPHABET)
            }
            5 => {
                let m = legal[cur.below(legal.len())];
                multibyte_mix(cur, &pos.san(&m, &legal))
            }
            6 => {
                // very short texts: piece letter + at most two more characters
                let mut t = String::new();
                t.push(cur.pick(&['N', 'B', 'R', 'Q', 'K', 'O', 'a', 'x']));
                let n = cur.below(3);
                for _ in 0..n {
                    t.push(pick_char(cur, "x+#=:18ah"));
                }
                t
            }
            7 => {
                let g = grammar_san(cur, &pos).text();
                mutate(cur, &g, MOVE_ALPHABET)
            }
            _ => alphabet_string(cur, MOVE_ALPHABET, 9),
        },
        "uci_list" => {
            let mut p = pos.clone();
            let n = cur.below(8);
            let mut toks: Vec<String> = Vec::new();
            for _ in 0..n {
                let l = p.legal();
                if l.is_empty() {
                    break;
                }
                let m = l[cur.below(l.len())];
                toks.push(m.uci());
                p = p.apply(&m);
            }
            let sep = cur.pick(&[" ", "  ", "\t", "\n", " \r\n", "\u{a0}", "\u{2003}"]);
            let joined = toks.join(sep);
            match kind {
                0..=3 => joined,
                4..=6 => mutate(cur, &joined, MOVE_ALPHABET),
                7 => multibyte_mix(cur, &joined),
                _ => alphabet_string(cur, MOVE_ALPHABET, 30),
            }
        }
        _ => {
            // small value types
            match kind {
                0..=5 => alphabet_string(cur, "abcdefgh12345678KQkqwb.PNBRpnbr- ", 5),
                6 | 7 => {
                    let t = cur_pick_str(cur);
                    multibyte_mix(cur, t)
                }
                _ => alphabet_string(cur, "", 6),
            }
        }
    };
    json!({"entry": entry, "text": text, "fen": fen})
}

/// Texts aimed at a generated position: UCI of pseudo-legal moves (legal or not), reference SAN texts and their two-file
/// pawn-capture forms, and UCI lists that go on after a pseudo-legal but illegal token as if it had been played
/// (preferring to take the king next), so that whatever an accepting parser lets through is followed up.
fn gen_pos_case(cur: &mut Cursor) -> Value {
    let (pos, src) = gen_position(cur);
    let entry = cur.pick(&["from_uci", "from_san", "from_san", "uci_list", "uci_list"]);
    let legal = pos.legal();
    let pseudo = pos.pseudo_legal();
    let kind = cur.below(8);
    let text = if pseudo.is_empty() {
        alphabet_string(cur, MOVE_ALPHABET, 6)
    } else {
        match entry {
            "from_uci" => {
                let t = pseudo[cur.below(pseudo.len())].uci();
                match kind {
                    0..=4 => t,
                    5 | 6 => mutate(cur, &t, MOVE_ALPHABET),
                    _ => multibyte_mix(cur, &t),
                }
            }
            "from_san" => {
                let m = if legal.is_empty() || cur.chance(40) { pseudo[cur.below(pseudo.len())] } else { legal[cur.below(legal.len())] };
                let full = pos.san(&m, &pseudo);
                let is_pawn_capture = m.man.1 == Pc::P && file_of(m.from) != file_of(m.to);
                match kind {
                    2 | 3 if pos.ep.is_some() && cur.bool() => {
                        // any two files (adjacent or not), as the abbreviated capture notation: the en-passant branch of its
                        // resolver is the only one that looks beyond the two named files
                        let (a, b) = ((b'a' + cur.below(8) as u8) as char, (b'a' + cur.below(8) as u8) as char);
                        format!("{}{}{}", a, if cur.chance(60) { "x" } else { "" }, b)
                    }
                    0 | 1 if is_pawn_capture => {
                        // "cd", "cxd", "cd6"
                        let (a, b) = ((b'a' + file_of(m.from) as u8) as char, (b'a' + file_of(m.to) as u8) as char);
                        match cur.below(3) {
                            0 => format!("{}{}", a, b),
                            1 => format!("{}x{}", a, b),
                            _ => format!("{}{}{}", a, b, (b'1' + rank_of(m.to) as u8) as char),
                        }
                    }
                    0..=3 => full,
                    4 => grammar_san(cur, &pos).text(),
                    5 | 6 => mutate(cur, &full, MOVE_ALPHABET),
                    _ => multibyte_mix(cur, &full),
                }
            }
            _ => {
                let mut p = pos.clone();
                let n = 1 + cur.below(6);
                let mut toks: Vec<String> = Vec::new();
                let mut off_the_rails = false;
                for _ in 0..n {
                    let ps = p.pseudo_legal();
                    if ps.is_empty() {
                        break;
                    }
                    let l: Vec<RefMove> = ps.iter().filter(|m| !p.apply(m).in_check(p.side)).cloned().collect();
                    let king_takes: Vec<RefMove> = ps.iter().filter(|m| matches!(p.b[m.to as usize], Some((_, Pc::K)))).cloned().collect();
                    let m = if off_the_rails && !king_takes.is_empty() && cur.chance(200) {
                        king_takes[cur.below(king_takes.len())]
                    } else if l.len() < ps.len() && cur.chance(70) {
                        let bad: Vec<RefMove> = ps.iter().filter(|m| !l.contains(m)).cloned().collect();
                        off_the_rails = true;
                        bad[cur.below(bad.len())]
                    } else if !l.is_empty() && !off_the_rails {
                        // special moves (promotions, castling, en passant, captures by or of kings and rooks) half of the time
                        let sp: Vec<RefMove> = l.iter().filter(|m| !matches!(m.kind, Kind::Simple) || (p.is_capture(m) && (m.man.1 == Pc::K || m.man.1 == Pc::R || matches!(p.b[m.to as usize], Some((_, Pc::R)))))).cloned().collect();
                        if !sp.is_empty() && cur.bool() {
                            sp[cur.below(sp.len())]
                        } else {
                            l[cur.below(l.len())]
                        }
                    } else {
                        ps[cur.below(ps.len())]
                    };
                    toks.push(m.uci());
                    p = p.apply(&m);
                    if p.king_sq(Col::W).is_none() && p.king_sq(Col::B).is_none() {
                        break;
                    }
                }
                let joined = toks.join(cur.pick(&[" ", " ", "  ", "\t", "\n"]));
                match kind {
                    0..=5 => joined,
                    6 => mutate(cur, &joined, MOVE_ALPHABET),
                    _ => multibyte_mix(cur, &joined),
                }
            }
        }
    };
    crate::common::with_twin(cur, json!({"entry": entry, "text": text, "fen": pos.fen(), "src": src}))
}

fn check_pos_case(case: &Value, stats: &mut Stats) -> CheckResult {
    let fen = case["fen"].as_str().unwrap_or("");
    let p = ref_from_fen(fen).map_err(|e| Failure::new(format!("harness: bad case fen {:?}: {}", fen, e)))?;
    if !p.is_valid() || p.normalised() != p {
        stats.skip("case_not_reference_valid");
        return Ok(());
    }
    if Board::try_from(raw_from_ref(&p)).is_err() {
        stats.skip("gate_rejected_reference_valid_position");
        return Ok(());
    }
    stats.label_if(p.ep.is_some(), "ep_mark");
    stats.label_if(p.in_check(p.side), "in_check");
    check_case(case, stats)
}

fn cur_pick_str(cur: &mut Cursor) -> &'static str {
    cur.pick(&["e4", "w", "b", "K", "KQkq", "-", "a1", "h8", ".", "Kq", ""])
}

fn all_uci_like(cur: &mut Cursor) -> String {
    let v = crate::props::c10::all_uci_strings();
    v[cur.below(v.len())].clone()
}

const SHORT_ALPHABET: &str = "a1h8e4NQKOx=+#-:0 /wbé€😀";

fn short_driver(_ctx: &RunCtx, stats: &mut Stats, rep: &mut Reporter) {
    let chars: Vec<char> = SHORT_ALPHABET.chars().collect();
    let n = chars.len() as u64;
    let per_entry = 1 + n + n * n + n * n * n;
    let chars = &chars;
    par_chunks(per_entry * ENTRIES.len() as u64, stats, rep, |range, st, fails| {
        for idx in range {
            let entry = ENTRIES[(idx / per_entry) as usize];
            let mut i = idx % per_entry;
            let mut s = String::new();
            if i >= 1 {
                i -= 1;
                if i < n {
                    s.push(chars[i as usize]);
                } else {
                    i -= n;
                    if i < n * n {
                        s.push(chars[(i / n) as usize]);
                        s.push(chars[(i % n) as usize]);
                    } else {
                        i -= n * n;
                        s.push(chars[(i / (n * n)) as usize]);
                        s.push(chars[(i / n % n) as usize]);
                        s.push(chars[(i % n) as usize]);
                    }
                }
            }
            let case = json!({"entry": entry, "text": s, "fen": POSITIONS[(idx % 7) as usize]});
            if let Err(f) = guarded("C12", "short_strings_exhaustive", check_case, &case, st) {
                if fails.len() < 6 {
                    fails.push((case, f));
                }
            }
        }
    });
}

/// "Any length": UCI lists of several hundred thousand plies (one position recurring tens of thousands of times)
/// and FEN-like texts of a megabyte must be handled like any other input.
fn long_check(case: &Value, stats: &mut Stats) -> CheckResult {
    let kind = case["kind"].as_str().unwrap_or("");
    let reps = case["reps"].as_u64().unwrap_or(1) as usize;
    match kind {
        "uci_cycle" => {
            let unit = case["unit"].as_str().unwrap_or("g1f3 g8f6 f3g1 f6g8 ");
            let plies = unit.split_ascii_whitespace().count() * reps;
            let text = unit.repeat(reps);
            let mut chain = MoveChain::new(board_of(POSITIONS[0])?);
            match chain.push_uci_list(&text) {
                Ok(()) => ensure!(chain.len() == plies, "push_uci_list of {} legal plies left {} moves", plies, chain.len()),
                Err(e) => fail!("push_uci_list of {} legal plies failed at {}: {}", plies, e.pos, e.source),
            }
            let _ = chain.calc_outcome();
            let back = chain.uci().to_string();
            ensure!(back.split(' ').count() == plies, "uci() of the long chain has the wrong number of tokens");
            while chain.pop().is_some() {}
            ensure!(chain.last() == &board_of(POSITIONS[0])?, "popping the long list does not restore the start");
            stats.add("plies", plies as u64);
        }
        _ => {
            let unit = case["unit"].as_str().unwrap_or("8/");
            let text = unit.repeat(reps);
            for entry in ["fen_board", "fen_raw", "uci_move", "san_move", "from_san", "uci_list", "coord", "rights"] {
                run_entry(entry, &text, POSITIONS[0], stats)?;
            }
            stats.add("bytes", text.len() as u64);
        }
    }
    stats.label("very_long_input");
    stats.nontrivial(&(kind.to_string(), reps, case["unit"].to_string()));
    Ok(())
}

fn long_driver(_ctx: &RunCtx, stats: &mut Stats, rep: &mut Reporter) {
    let cases: Vec<Value> = [
        r#"{"kind":"uci_cycle","unit":"g1f3 g8f6 f3g1 f6g8 ","reps":66000}"#,
        r#"{"kind":"uci_cycle","unit":"b1c3\tb8c6\nc3b1  c6b8 ","reps":33000}"#,
        r#"{"kind":"text","unit":"8/","reps":400000}"#,
        r#"{"kind":"text","unit":"e2e4 ","reps":200000}"#,
        r#"{"kind":"text","unit":"€","reps":300000}"#,
        r#"{"kind":"text","unit":"rnbqkbnr/pppppppp/8/8/8/8/PPPPPPPP/RNBQKBNR w KQkq - 0 1 ","reps":20000}"#,
    ]
    .iter()
    .map(|t| serde_json::from_str(t).unwrap())
    .collect();
    let cases = &cases;
    par_chunks(cases.len() as u64, stats, rep, |range, st, fails| {
        for i in range {
            let c = &cases[i as usize];
            if let Err(f) = guarded("C12", "very_long_inputs", long_check, c, st) {
                fails.push((c.clone(), f));
            }
        }
    });
}

pub fn property() -> Property {
    Property {
        id: "C12",
        rule: "Strings for 11 entry points (Board::from_fen, RawBoard::from_fen, uci::Move::from_str, Move::from_uci*/semilegal/legal, \
               san::Move::from_str, Move::from_san, MoveChain::push_uci_list/from_uci_list, Coord, Cell, Color, CastlingRights), in eight \
               fixed positions where one is needed. Generated: grammar FEN/SAN, canonical texts with 1-2 edits (insert/delete/replace/transpose/ \
               truncate/duplicate), multi-byte substitutions (2-, 3-, 4-byte characters so that byte lengths coincide with valid lengths), \
               alphabet strings, arbitrary scalar values, inputs up to ~10 kB; very_long_inputs: UCI lists of 132,000-264,000 legal plies \
               (one position recurring 33,000-66,000 times) and megabyte texts; exhaustive: every string of length <= 3 over a 25-symbol \
               alphabet (incl. multi-byte) for every entry point. Oracle: no panic (catch_unwind; aborts attributed by the panic hook in the \
               checked build) and for every Ok(v): parse(format(v)) == Ok(v); for UCI lists the chain rebuilt from its own UCI text is \
               equal, the error position equals the number of moves pushed, and after up to three further plies chosen from the library's own \
               legal list every move the UCI reader returns in the final position survives value -> SAN text -> value. Non-trivial = accepted, or rejected beyond the first-line \
               length/emptiness checks, or non-ASCII; distinct by (entry, text, position). generated_positions: the position-dependent entry points in \
               generated positions (20 sources) with texts aimed at the position: UCI of pseudo-legal moves legal or not, reference SAN and \
               two-file pawn-capture forms, UCI lists that continue after an illegal token as if it had been played (taking the king when \
               possible), each also mutated; same oracle.",
        assumptions: &["panics are observed through catch_unwind; non-unwinding aborts through the panic hook + parent process"],
        subchecks: vec![
            SubCheck {
                name: "generated_strings",
                driver: Driver::Generated { gen: gen_case, genome_len: 384, quick: 9_000_000, thorough: 80_000_000 },
                check: check_case,
                configs: Configs::Both,
                required: &["accepted", "deep_rejection", "non_ascii", "entry:fen_board", "entry:uci_move", "entry:from_san", "entry:uci_list", "entry:rights"],
                regressions: &[
                    r#"{"entry":"uci_move","text":"aé4","fen":"rnbqkbnr/pppppppp/8/8/8/8/PPPPPPPP/RNBQKBNR w KQkq - 0 1"}"#,
                    r#"{"entry":"from_uci","text":"e2eé","fen":"rnbqkbnr/pppppppp/8/8/8/8/PPPPPPPP/RNBQKBNR w KQkq - 0 1"}"#,
                    r#"{"entry":"san_move","text":"N","fen":"rnbqkbnr/pppppppp/8/8/8/8/PPPPPPPP/RNBQKBNR w KQkq - 0 1"}"#,
                    r#"{"entry":"san_move","text":"R+","fen":"rnbqkbnr/pppppppp/8/8/8/8/PPPPPPPP/RNBQKBNR w KQkq - 0 1"}"#,
                    r#"{"entry":"from_san","text":"Nx","fen":"rnbqkbnr/pppppppp/8/8/8/8/PPPPPPPP/RNBQKBNR w KQkq - 0 1"}"#,
                    r#"{"entry":"from_san","text":"Q#","fen":"rnbqkbnr/pppppppp/8/8/8/8/PPPPPPPP/RNBQKBNR w KQkq - 0 1"}"#,
                    r#"{"entry":"san_move","text":"€","fen":"rnbqkbnr/pppppppp/8/8/8/8/PPPPPPPP/RNBQKBNR w KQkq - 0 1"}"#,
                    r#"{"entry":"from_san","text":"N€","fen":"rnbqkbnr/pppppppp/8/8/8/8/PPPPPPPP/RNBQKBNR w KQkq - 0 1"}"#,
                    r#"{"entry":"uci_list","text":"e2e4 aé4","fen":"rnbqkbnr/pppppppp/8/8/8/8/PPPPPPPP/RNBQKBNR w KQkq - 0 1"}"#,
                ],
                exhaustive: false,
            },
            SubCheck {
                name: "generated_positions",
                driver: Driver::Generated { gen: gen_pos_case, genome_len: 320, quick: 3_000_000, thorough: 24_000_000 },
                check: check_pos_case,
                configs: Configs::Both,
                required: &["accepted", "deep_rejection", "entry:from_uci", "entry:from_san", "entry:uci_list", "ep_mark", "in_check"],
                regressions: &[],
                exhaustive: false,
            },
            SubCheck {
                name: "very_long_inputs",
                driver: Driver::Custom { run: long_driver },
                check: long_check,
                configs: Configs::Both,
                required: &["very_long_input"],
                regressions: &[],
                exhaustive: false,
            },
            SubCheck {
                name: "short_strings_exhaustive",
                driver: Driver::Custom { run: short_driver },
                check: check_case,
                configs: Configs::Both,
                required: &["accepted", "non_ascii"],
                regressions: &[],
                exhaustive: true,
            },
        ],
    }
}
