//! Property registry and evidence assembly.

use crate::engine::*;
use crate::refmodel::*;
use serde_json::{json, Value};

pub mod c01;
pub mod c02;
pub mod c03;
pub mod c04;
pub mod c05;
pub mod c06;
pub mod c07;
pub mod c08;
pub mod c09;
pub mod c10;
pub mod c11;
pub mod c12;
pub mod c13;
pub mod c14;
pub mod c15;
pub mod c19;
pub mod c20;
pub mod c16;
pub mod c17;
pub mod c18;

pub fn all() -> Vec<Property> {
    vec![c01::property(), c02::property(), c03::property(), c04::property(), c05::property(), c06::property(), c07::property(), c08::property(), c09::property(), c10::property(), c11::property(), c12::property(), c13::property(), c14::property(), c15::property(), c16::property(), c17::property(), c18::property(), c19::property(), c20::property()]
}

/// Published perft node counts; validates the reference model itself (infrastructure check).
pub const PERFT_POSITIONS: &[(&str, &str, &[u64])] = &[
    ("startpos", "rnbqkbnr/pppppppp/8/8/8/8/PPPPPPPP/RNBQKBNR w KQkq - 0 1", &[20, 400, 8902, 197281, 4865609]),
    ("kiwipete", "r3k2r/p1ppqpb1/bn2pnp1/3PN3/1p2P3/2N2Q1p/PPPBBPPP/R3K2R w KQkq - 0 1", &[48, 2039, 97862, 4085603]),
    ("position3", "8/2p5/3p4/KP5r/1R3p1k/8/4P1P1/8 w - - 0 1", &[14, 191, 2812, 43238, 674624]),
    ("position4", "r3k2r/Pppp1ppp/1b3nbN/nP6/BBP1P3/q4N2/Pp1P2PP/R2Q1RK1 w kq - 0 1", &[6, 264, 9467, 422333]),
    ("position5", "rnbq1k1r/pp1Pbppp/2p5/8/2B5/8/PPP1NnPP/RNBQK2R w KQ - 1 8", &[44, 1486, 62379, 2103487]),
    ("position6", "r4rk1/1pp1qppp/p1np1n2/2b1p1B1/2B1P1b1/P1NP1N2/1PP1QPPP/R4RK1 w - - 0 10", &[46, 2079, 89890, 3894594]),
];

/// Reference model vs published perft (shallow depths, < 0.5 s). Err = infrastructure failure.
pub fn ref_selfcheck(max_nodes: u64) -> Result<u64, String> {
    let mut total = 0;
    for (name, fen, counts) in PERFT_POSITIONS {
        let p = ref_from_fen(fen).map_err(|e| format!("{}: {}", name, e))?;
        for (d, want) in counts.iter().enumerate() {
            if *want > max_nodes {
                break;
            }
            let got = perft(&p, d as u32 + 1);
            if got != *want {
                return Err(format!("reference perft({}, {}) = {}, published {}", name, d + 1, got, want));
            }
            total += got;
        }
    }
    Ok(total)
}

pub fn build_evidence(prop: &Property, part: &Value, other: Option<&Value>, other_status: Option<&str>) -> Value {
    let mut evaluations = 0u64;
    let mut distinct = 0u64;
    let mut samples: Vec<Value> = Vec::new();
    let mut per_sub: Vec<Value> = Vec::new();
    let mut violations = part["violations"].as_u64().unwrap_or(0);
    let mut wall = part["wall_s"].as_f64().unwrap_or(0.0);
    let mut seen: std::collections::BTreeMap<String, u64> = Default::default();
    let mut exhaustive_all = true;
    for p in [Some(part), other].into_iter().flatten() {
        let cfg = p["config"].as_str().unwrap_or("?");
        if let Some(subs) = p["subchecks"].as_array() {
            for s in subs {
                let name = s["name"].as_str().unwrap_or("?").to_string();
                let ev = s["evaluations"].as_u64().unwrap_or(0);
                let dn = s["distinct_nontrivial"].as_u64().unwrap_or(0);
                evaluations += ev;
                // the same seeds generate the same cases in both configurations: count distinct once
                let e = seen.entry(name.clone()).or_insert(0);
                if dn > *e {
                    distinct += dn - *e;
                    *e = dn;
                }
                if !s["exhaustive"].as_bool().unwrap_or(false) {
                    exhaustive_all = false;
                }
                if cfg != "checked" || other.is_none() || !std::ptr::eq(p, other.unwrap()) {
                    if let Some(sm) = s["samples"].as_array() {
                        for x in sm.iter().take(3) {
                            samples.push(json!({"subcheck": name, "case": x}));
                        }
                    }
                }
                let mut s2 = s.clone();
                s2["config"] = json!(cfg);
                if let Some(o) = s2.as_object_mut() {
                    o.remove("samples");
                }
                per_sub.push(s2);
            }
        }
    }
    if let Some(o) = other {
        violations += o["violations"].as_u64().unwrap_or(0);
        wall += o["wall_s"].as_f64().unwrap_or(0.0);
    }
    let mut assumptions: Vec<String> = prop.assumptions.iter().map(|s| s.to_string()).collect();
    if let Some(st) = other_status {
        assumptions.push(format!("checked-build run status: {}", st));
        if st.contains("abort") || st.contains("violation") {
            violations = violations.max(1);
        }
    }
    if samples.is_empty() {
        samples.push(json!("no sample recorded"));
    }
    json!({
        "property_id": prop.id,
        "tier": part["tier"],
        "seed": part["seed"],
        "level": "exploration",
        "coverage": {
            "evaluations": evaluations,
            "distinct_nontrivial": distinct,
            "rule": prop.rule,
            "samples": samples,
            "exhaustive": exhaustive_all,
            "subchecks": per_sub,
            "inconclusive": part["inconclusive"],
        },
        "assumptions": assumptions,
        "wall_s": (wall * 1000.0).round() / 1000.0,
        "violations": violations,
    })
}
