//! C10 — UCI move text round-trips and is accepted exactly when such a move exists.

use crate::common::*;
use crate::conv::*;
use crate::engine::*;
use crate::refmodel::*;
use crate::{ensure, fail};
use owlchess::movegen::semilegal;
use owlchess::moves::make::Uci;
use owlchess::moves::uci;
use owlchess::{Board, Make, Move};
use serde_json::Value;
use std::collections::HashMap;
use std::str::FromStr;
use std::sync::OnceLock;

static ALL_UCI: OnceLock<Vec<String>> = OnceLock::new();

/// All 20,480 strings [a-h][1-8][a-h][1-8][nbrq]? plus "0000"
pub fn all_uci_strings() -> &'static Vec<String> {
    ALL_UCI.get_or_init(|| {
        let mut v = Vec::with_capacity(20481);
        for a in 0..64u8 {
            for b in 0..64u8 {
                let base = format!("{}{}", sq_name(a), sq_name(b));
                v.push(base.clone());
                for p in ["n", "b", "r", "q"] {
                    v.push(format!("{}{}", base, p));
                }
            }
        }
        v.push("0000".to_string());
        v
    })
}

pub fn check_position(b: &Board, r: &RefPos, stats: &mut Stats, all_strings: bool) -> CheckResult {
    let s_ref = r.pseudo_legal();
    let l_ref = r.legal();
    // (1) round trip of every semilegal move
    for m in semilegal::gen_all(b).iter() {
        let text = m.to_string();
        if let Some(rm) = mv_from_lib(m) {
            ensure!(text == rm.uci(), "Display of {} is {:?}, coordinate notation is {:?}", mv_desc(m), text, rm.uci());
        }
        ensure!(m.uci().to_string() == text, "Move::uci().to_string() differs from Move::to_string()");
        match Move::from_uci(&text, b) {
            Ok(x) => ensure!(x == *m, "from_uci({:?}) = {} instead of {}", text, mv_desc(&x), mv_desc(m)),
            Err(e) => fail!("from_uci({:?}) refused the text of the semilegal move {}: {}", text, mv_desc(m), e),
        }
        match Move::from_uci_semilegal(&text, b) {
            Ok(x) => ensure!(x == *m, "from_uci_semilegal({:?}) = {} instead of {}", text, mv_desc(&x), mv_desc(m)),
            Err(e) => fail!("from_uci_semilegal({:?}) refused a semilegal move: {}", text, e),
        }
        let parsed = uci::Move::from_str(&text).map_err(|e| Failure::new(format!("uci::Move::from_str({:?}) failed: {}", text, e)))?;
        ensure!(parsed == uci::Move::from(*m), "uci::Move::from_str({:?}) differs from uci::Move::from(move)", text);
        ensure!(parsed.to_string() == text, "uci::Move Display does not round-trip for {:?}", text);
        match m.kind() {
            owlchess::MoveKind::CastlingKingside | owlchess::MoveKind::CastlingQueenside => stats.label("rt_castling"),
            owlchess::MoveKind::PawnDouble => stats.label("rt_double_step"),
            owlchess::MoveKind::Enpassant => stats.label("rt_en_passant"),
            owlchess::MoveKind::Simple => {}
            _ => stats.label("rt_promotion"),
        }
    }
    // (2) acceptance over strings
    let mut sl: HashMap<String, RefMove> = HashMap::new();
    for m in &s_ref {
        if sl.insert(m.uci(), *m).is_some() {
            fail!("harness: two pseudo-legal moves share the text {}", m.uci());
        }
    }
    let strings: Vec<&String>;
    let pool = all_uci_strings();
    if all_strings {
        strings = pool.iter().collect();
    } else {
        // strings whose source square holds a man of the side to move, all matching ones, and "0000"
        strings = pool
            .iter()
            .filter(|s| {
                if s.as_str() == "0000" {
                    return true;
                }
                let from = parse_sq(&s[0..2]).unwrap();
                matches!(r.b[from as usize], Some((c, _)) if c == r.side)
            })
            .collect();
    }
    let mut interesting = false;
    for s in strings {
        let want_s = sl.get(s.as_str());
        let want_l = want_s.filter(|m| l_ref.contains(m));
        match (Move::from_uci_semilegal(s, b), want_s) {
            (Ok(x), Some(w)) => {
                ensure!(mv_from_lib(&x) == Some(*w), "from_uci_semilegal({:?}) = {} but the pseudo-legal move is {:?}", s, mv_desc(&x), w);
                if w.kind != Kind::Simple {
                    interesting = true;
                }
            }
            (Err(_), None) => {
                if s.as_str() != "0000" {
                    let from = parse_sq(&s[0..2]).unwrap();
                    if matches!(r.b[from as usize], Some((c, _)) if c == r.side) {
                        stats.add("refused_with_own_man_on_source", 1);
                        interesting = true;
                    }
                }
            }
            (Ok(x), None) => fail!("from_uci_semilegal({:?}) accepted {} but no pseudo-legal move has that text", s, mv_desc(&x)),
            (Err(e), Some(w)) => fail!("from_uci_semilegal({:?}) refused ({}) although {:?} is pseudo-legal", s, e, w),
        }
        match (Move::from_uci_legal(s, b), want_l) {
            (Ok(x), Some(w)) => ensure!(mv_from_lib(&x) == Some(*w), "from_uci_legal({:?}) = {} but the legal move is {:?}", s, mv_desc(&x), w),
            (Err(_), None) => {}
            (Ok(x), None) => fail!("from_uci_legal({:?}) accepted {} but no legal move has that text", s, mv_desc(&x)),
            (Err(e), Some(w)) => fail!("from_uci_legal({:?}) refused ({}) although {:?} is legal", s, e, w),
        }
        // playing it
        let played = b.make_move(Uci(s.as_str()));
        ensure!(played.is_ok() == want_l.is_some(), "make::Uci({:?}) accepted = {} but legal = {}", s, played.is_ok(), want_l.is_some());
    }
    // (3) the null move is never accepted as a move to play
    ensure!(Move::from_uci_semilegal("0000", b).is_err(), "from_uci_semilegal accepted 0000");
    ensure!(Move::from_uci_legal("0000", b).is_err(), "from_uci_legal accepted 0000");
    ensure!(b.make_move(Uci("0000")).is_err(), "make::Uci accepted 0000");
    ensure!(uci::Move::Null.make(b).is_err(), "uci::Move::Null was accepted as a move to play");
    ensure!(b.make_move(Move::NULL).is_err(), "Move::NULL was accepted by the safe interface");
    ensure!(uci::Move::from_str("0000") == Ok(uci::Move::Null) && uci::Move::Null.to_string() == "0000", "0000 does not round-trip as the null move");
    pos_features(r, stats);
    stats.label_if(all_strings, "all_20481_strings");
    if interesting {
        stats.nontrivial(&r.rep_key());
    }
    Ok(())
}

fn check_case(case: &Value, stats: &mut Stats) -> CheckResult {
    match case_board(case, stats)? {
        Some((b, r)) => check_position(&b, &r, stats, true),
        None => Ok(()),
    }
}

fn pair_check(case: &Value, stats: &mut Stats) -> CheckResult {
    run_pair(case, stats, check_case)
}

fn pair_driver(ctx: &RunCtx, stats: &mut Stats, rep: &mut Reporter) {
    half_key_driver("C10", pair_check, ctx, stats, rep)
}

pub fn property() -> Property {
    Property {
        id: "C10",
        rule: "Valid positions (20 sources). (1) every semilegal move: Display text equals coordinate notation from the reference, and \
               from_uci / from_uci_semilegal / uci::Move::from_str return exactly that move including its kind. (2) all 20,481 strings \
               [a-h][1-8][a-h][1-8][nbrq]? + 0000 per position: from_uci_semilegal accepts <=> a reference pseudo-legal move has that \
               (source, destination, promotion), and returns it; from_uci_legal likewise with the legal set; make::Uci plays it <=> legal. \
               (3) 0000 / the null move is refused by both checking readers, make::Uci, uci::Move::Null.make and Move::NULL.make. \
               Non-trivial = position where an accepted string denotes a special move or a string naming an own man is refused; \
               distinct by (squares, side, rights, mark).",
        assumptions: &["reference pseudo-legal and legal sets (perft-validated)"],
        subchecks: vec![SubCheck {
            name: "positions_x_all_strings",
            driver: Driver::Generated { gen: gen_pos_case, genome_len: 192, quick: 100_000, thorough: 1_200_000 },
            check: check_case,
            configs: Configs::Both,
            required: &["rt_castling", "rt_double_step", "rt_en_passant", "rt_promotion", "all_20481_strings", "black_to_move"],
            regressions: &[],
            exhaustive: false,
        },
            SubCheck {
                name: "half_key_pairs",
                driver: Driver::Custom { run: pair_driver },
                check: pair_check,
                configs: Configs::ReleaseOnly,
                required: &["equal_low_half_of_the_key", "equal_high_half_of_the_key"],
                regressions: &[],
                exhaustive: false,
            },
        ],
    }
}
