//! C15 — attack and between tables are exact for every square and every occupancy.

use crate::conv::*;
use crate::engine::*;
use crate::gen::splitmix;
use crate::refmodel::*;
use crate::ensure;
use owlchess::types::Color;
use owlchess::verif as hook;
use owlchess::{Bitboard, Board};
use serde_json::{json, Value};

fn bb_from_sqs(v: &[Sq]) -> u64 {
    v.iter().fold(0u64, |a, s| a | (1u64 << sq_to_lib(*s).index()))
}

/// Ray walking: squares reached from `s` along `dirs` up to and including the first occupied square.
fn slide(s: Sq, occ: u64, dirs: &[(i8, i8)]) -> u64 {
    let mut out = 0u64;
    for &(df, dr) in dirs {
        let (mut f, mut r) = (file_of(s) + df, rank_of(s) + dr);
        while let Some(t) = mk_sq(f, r) {
            let bit = 1u64 << sq_to_lib(t).index();
            out |= bit;
            if occ & bit != 0 {
                break;
            }
            f += df;
            r += dr;
        }
    }
    out
}

const ROOK_D: [(i8, i8); 4] = [(1, 0), (-1, 0), (0, 1), (0, -1)];
const BISHOP_D: [(i8, i8); 4] = [(1, 1), (1, -1), (-1, 1), (-1, -1)];

/// Relevant blocker squares: ray squares excluding the last square of each ray (an occupant there
/// cannot change the attack set).
fn relevant(s: Sq, dirs: &[(i8, i8)]) -> Vec<Sq> {
    let mut v = Vec::new();
    for &(df, dr) in dirs {
        let (mut f, mut r) = (file_of(s) + df, rank_of(s) + dr);
        while let Some(t) = mk_sq(f, r) {
            if mk_sq(f + df, r + dr).is_some() {
                v.push(t);
            }
            f += df;
            r += dr;
        }
    }
    v
}

fn leaper_check(case: &Value, stats: &mut Stats) -> CheckResult {
    let s = case["sq"].as_u64().unwrap_or(0) as u8 % 64;
    let c = sq_to_lib(s);
    let offs = |ds: &[(i8, i8)]| -> u64 { bb_from_sqs(&ds.iter().filter_map(|(df, dr)| mk_sq(file_of(s) + df, rank_of(s) + dr)).collect::<Vec<_>>()) };
    let king = offs(&[(1, 0), (1, 1), (0, 1), (-1, 1), (-1, 0), (-1, -1), (0, -1), (1, -1)]);
    let knight = offs(&[(1, 2), (2, 1), (2, -1), (1, -2), (-1, -2), (-2, -1), (-2, 1), (-1, 2)]);
    let wp = offs(&[(-1, 1), (1, 1)]);
    let bp = offs(&[(-1, -1), (1, -1)]);
    ensure!(hook::king(c).as_raw() == king, "king attacks from {}: {:#x}, geometry {:#x}", sq_name(s), hook::king(c).as_raw(), king);
    ensure!(hook::knight(c).as_raw() == knight, "knight attacks from {}: {:#x}, geometry {:#x}", sq_name(s), hook::knight(c).as_raw(), knight);
    ensure!(hook::pawn(Color::White, c).as_raw() == wp, "white pawn attacks from {}: {:#x}, geometry {:#x}", sq_name(s), hook::pawn(Color::White, c).as_raw(), wp);
    ensure!(hook::pawn(Color::Black, c).as_raw() == bp, "black pawn attacks from {}: {:#x}, geometry {:#x}", sq_name(s), hook::pawn(Color::Black, c).as_raw(), bp);
    stats.nontrivial(&s);
    Ok(())
}

fn pair_check(case: &Value, stats: &mut Stats) -> CheckResult {
    let a = case["a"].as_u64().unwrap_or(0) as u8 % 64;
    let b = case["b"].as_u64().unwrap_or(0) as u8 % 64;
    let (ca, cb) = (sq_to_lib(a), sq_to_lib(b));
    let df = file_of(b) - file_of(a);
    let dr = rank_of(b) - rank_of(a);
    let diag = a != b && df.abs() == dr.abs();
    let line = a != b && (df == 0 || dr == 0);
    ensure!(hook::is_bishop_valid(ca, cb) == diag, "diagonal alignment of {}-{}: table {}, geometry {}", sq_name(a), sq_name(b), hook::is_bishop_valid(ca, cb), diag);
    ensure!(hook::is_rook_valid(ca, cb) == line, "line alignment of {}-{}: table {}, geometry {}", sq_name(a), sq_name(b), hook::is_rook_valid(ca, cb), line);
    let between = |a: Sq, b: Sq| -> u64 {
        let (sf, sr) = (df.signum(), dr.signum());
        let mut v = Vec::new();
        let (mut f, mut r) = (file_of(a) + sf, rank_of(a) + sr);
        while (f, r) != (file_of(b), rank_of(b)) {
            v.push(mk_sq(f, r).unwrap());
            f += sf;
            r += sr;
        }
        bb_from_sqs(&v)
    };
    // between sets are specified for aligned pairs and for a == b (callers establish alignment first)
    if diag {
        let w = between(a, b);
        ensure!(hook::bishop_strict(ca, cb).as_raw() == w, "diagonal between {}-{}: {:#x}, geometry {:#x}", sq_name(a), sq_name(b), hook::bishop_strict(ca, cb).as_raw(), w);
        stats.nontrivial(&(a, b, 'd'));
    }
    if line {
        let w = between(a, b);
        ensure!(hook::rook_strict(ca, cb).as_raw() == w, "line between {}-{}: {:#x}, geometry {:#x}", sq_name(a), sq_name(b), hook::rook_strict(ca, cb).as_raw(), w);
        stats.nontrivial(&(a, b, 'l'));
    }
    if a == b {
        ensure!(hook::bishop_strict(ca, cb).is_empty() && hook::rook_strict(ca, cb).is_empty(), "between({0},{0}) is not empty", sq_name(a));
    }
    Ok(())
}

fn slider_check(case: &Value, stats: &mut Stats) -> CheckResult {
    let s = case["sq"].as_u64().unwrap_or(0) as u8 % 64;
    let rook = case["piece"].as_str() == Some("rook");
    let occ = u64::from_str_radix(case["occ"].as_str().unwrap_or("0").trim_start_matches("0x"), 16).unwrap_or(0);
    let dirs: &[(i8, i8)] = if rook { &ROOK_D } else { &BISHOP_D };
    let want = slide(s, occ, dirs);
    let got = if rook { hook::rook(sq_to_lib(s), Bitboard::from_raw(occ)) } else { hook::bishop(sq_to_lib(s), Bitboard::from_raw(occ)) };
    ensure!(
        got.as_raw() == want,
        "{} attacks from {} with occupancy {:#x}: table {:#x}, ray walking {:#x}",
        if rook { "rook" } else { "bishop" }, sq_name(s), occ, got.as_raw(), want
    );
    if occ != 0 {
        stats.nontrivial(&(s, rook, occ));
    }
    Ok(())
}

fn leaper_driver(_ctx: &RunCtx, stats: &mut Stats, rep: &mut Reporter) {
    for s in 0..64 {
        let case = json!({"sq": s});
        if let Err(f) = guarded("C15", "leapers_and_pawns", leaper_check, &case, stats) {
            rep(case, f);
        }
    }
}

fn pair_driver(_ctx: &RunCtx, stats: &mut Stats, rep: &mut Reporter) {
    for a in 0..64 {
        for b in 0..64 {
            let case = json!({"a": a, "b": b});
            if let Err(f) = guarded("C15", "between_and_alignment", pair_check, &case, stats) {
                rep(case, f);
            }
        }
    }
}

fn slider_driver(ctx: &RunCtx, stats: &mut Stats, rep: &mut Reporter) {
    let k = if ctx.tier == Tier::Quick { 16 } else { 128 };
    let seed = ctx.seed;
    // work items: (piece, square)
    par_chunks(128, stats, rep, |range, st, fails| {
        for i in range {
            let rook = i >= 64;
            let s = (i % 64) as u8;
            let dirs: &[(i8, i8)] = if rook { &ROOK_D } else { &BISHOP_D };
            let rel = relevant(s, dirs);
            let rel_mask = bb_from_sqs(&rel);
            let self_bit = 1u64 << sq_to_lib(s).index();
            let mut rng = splitmix(seed ^ (i as u64) << 32 ^ 0xC15);
            for sub in 0..(1u64 << rel.len()) {
                let mut occ = 0u64;
                for (j, t) in rel.iter().enumerate() {
                    if sub >> j & 1 == 1 {
                        occ |= 1u64 << sq_to_lib(*t).index();
                    }
                }
                // (a) no other bits, (b) all irrelevant bits, (c) k random irrelevant patterns
                let mut variants = vec![occ, occ | !rel_mask, occ | self_bit];
                // (e) every single irrelevant bit on its own (sparse patterns, which random 64-bit words never are)
                let mut rest = !rel_mask & !self_bit;
                while rest != 0 {
                    variants.push(occ | (rest & rest.wrapping_neg()));
                    rest &= rest - 1;
                }
                for _ in 0..k {
                    rng = splitmix(rng);
                    variants.push(occ | (rng & !rel_mask));
                }
                for o in variants {
                    let want = slide(s, o, dirs);
                    let got = if rook { hook::rook(sq_to_lib(s), Bitboard::from_raw(o)) } else { hook::bishop(sq_to_lib(s), Bitboard::from_raw(o)) };
                    st.count(1);
                    if got.as_raw() != want {
                        let case = json!({"piece": if rook { "rook" } else { "bishop" }, "sq": s, "occ": format!("{:#x}", o)});
                        if fails.len() < 4 {
                            fails.push((case, Failure::new(format!("table {:#x}, ray walking {:#x}", got.as_raw(), want))));
                        }
                    } else if sub != 0 {
                        st.nontrivial(&(s, rook, o));
                    }
                }
                if sub == (1u64 << rel.len()) - 1 || sub == 1 {
                    st.sample(json!({"piece": if rook { "rook" } else { "bishop" }, "sq": sq_name(s), "occ": format!("{:#x}", occ)}));
                }
            }
            st.add("relevant_subsets", 1u64 << rel.len());
        }
    });
}

// ---------------------------------------------------------------------------------------------
// The same sweep through the public consumers of the tables (move generation and attack queries)

const KNIGHT_D: [(i8, i8); 8] = [(1, 2), (2, 1), (2, -1), (1, -2), (-1, -2), (-2, -1), (-2, 1), (-1, 2)];

fn full_rays(s: Sq, dirs: &[(i8, i8)]) -> Vec<Sq> {
    let mut v = Vec::new();
    for &(df, dr) in dirs {
        let (mut f, mut r) = (file_of(s) + df, rank_of(s) + dr);
        while let Some(t) = mk_sq(f, r) {
            v.push(t);
            f += df;
            r += dr;
        }
    }
    v
}

/// Deterministic king squares for (piece, square, flip): both off the relevant squares; the king of the side not to
/// move off every line of the slider, not a knight's move away from any square that may hold a blocker of the
/// slider's colour, and not next to the other king. None if no such pair exists.
fn king_squares(s: Sq, piece: &str, flip: bool) -> Option<(Sq, Sq)> {
    let rook_rel = if piece != "bishop" { relevant(s, &ROOK_D) } else { vec![] };
    let bishop_rel = if piece != "rook" { relevant(s, &BISHOP_D) } else { vec![] };
    let own_rel: &Vec<Sq> = if flip { &rook_rel } else { &bishop_rel };
    let mut banned_enemy: Vec<Sq> = vec![s];
    banned_enemy.extend(full_rays(s, &ROOK_D));
    banned_enemy.extend(full_rays(s, &BISHOP_D));
    for &o in own_rel {
        banned_enemy.extend(KNIGHT_D.iter().filter_map(|(df, dr)| mk_sq(file_of(o) + df, rank_of(o) + dr)));
        banned_enemy.push(o);
    }
    banned_enemy.extend(rook_rel.iter().chain(bishop_rel.iter()));
    let k2 = (0..64u8).rev().find(|t| !banned_enemy.contains(t))?;
    let k1 = (0..64u8).find(|t| {
        *t != s && *t != k2 && !rook_rel.contains(t) && !bishop_rel.contains(t)
            && (file_of(*t) - file_of(k2)).abs().max((rank_of(*t) - rank_of(k2)).abs()) > 1
    })?;
    Some((k1, k2))
}

/// One (piece, square, blocker subset) as a position: the slider belongs to the side to move, blockers are knights
/// (own colour on the diagonal rays and the other colour on the straight rays, or the reverse with `flip`), two kings
/// off the relevant squares. The slider's generated destinations and the attack queries must equal ray walking.
fn api_check(case: &Value, stats: &mut Stats) -> CheckResult {
    use owlchess::movegen::{cell_attackers, is_cell_attacked, semilegal};
    let s = case["sq"].as_u64().unwrap_or(0) as u8 % 64;
    let piece = case["piece"].as_str().unwrap_or("queen");
    let flip = case["flip"].as_bool().unwrap_or(false);
    let white = case["white"].as_bool().unwrap_or(true);
    let sub = u64::from_str_radix(case["occ"].as_str().unwrap_or("0").trim_start_matches("0x"), 16).unwrap_or(0);
    let (me, other) = if white { (Col::W, Col::B) } else { (Col::B, Col::W) };
    let pc = match piece {
        "rook" => Pc::R,
        "bishop" => Pc::B,
        _ => Pc::Q,
    };
    let Some((k1, k2)) = king_squares(s, piece, flip) else {
        stats.skip("no_king_squares");
        return Ok(());
    };
    let mut p = RefPos::empty();
    p.side = me;
    p.b[s as usize] = Some((me, pc));
    p.b[k1 as usize] = Some((me, Pc::K));
    p.b[k2 as usize] = Some((other, Pc::K));
    let mut dirs: Vec<(i8, i8)> = Vec::new();
    let mut blockers = 0;
    if pc != Pc::B {
        dirs.extend(ROOK_D);
        for t in relevant(s, &ROOK_D) {
            if sub >> sq_to_lib(t).index() & 1 == 1 {
                p.b[t as usize] = Some((if flip { me } else { other }, Pc::N));
                blockers += 1;
            }
        }
    }
    if pc != Pc::R {
        dirs.extend(BISHOP_D);
        for t in relevant(s, &BISHOP_D) {
            if sub >> sq_to_lib(t).index() & 1 == 1 {
                p.b[t as usize] = Some((if flip { other } else { me }, Pc::N));
                blockers += 1;
            }
        }
    }
    ensure!(p.is_valid(), "harness: constructed position is not valid: {}", p.fen());
    let b = match Board::try_from(raw_from_ref(&p)) {
        Ok(b) => b,
        Err(_) => {
            stats.skip("gate_rejected_reference_valid_position");
            return Ok(());
        }
    };
    let mut occ = 0u64;
    let mut own = 0u64;
    for t in 0..64u8 {
        if let Some((c, _)) = p.b[t as usize] {
            occ |= 1u64 << sq_to_lib(t).index();
            if c == me {
                own |= 1u64 << sq_to_lib(t).index();
            }
        }
    }
    let want = slide(s, occ, &dirs);
    let mut got = 0u64;
    for m in semilegal::gen_all(&b).iter() {
        if sq_from_lib(m.src()) == s {
            let bit = 1u64 << m.dst().index();
            ensure!(got & bit == 0, "{}: destination {} generated twice for the {} on {}", p.fen(), m.dst(), piece, sq_name(s));
            got |= bit;
        }
    }
    ensure!(got == want & !own, "{}: semilegal destinations of the {} on {} are {:#x}, ray walking gives {:#x}", p.fen(), piece, sq_name(s), got, want & !own);
    let mut legal = 0u64;
    for m in owlchess::movegen::legal::gen_all(&b).iter() {
        if sq_from_lib(m.src()) == s {
            legal |= 1u64 << m.dst().index();
        }
    }
    ensure!(legal & !got == 0, "{}: legal destinations {:#x} of the {} on {} outside ray walking {:#x}", p.fen(), legal, piece, sq_name(s), want & !own);
    let sbit = 1u64 << sq_to_lib(s).index();
    for t in 0..64u8 {
        let c = sq_to_lib(t);
        let att = cell_attackers(&b, c, col_to_lib(me)).as_raw();
        let w = want >> c.index() & 1 == 1;
        ensure!((att & sbit != 0) == w, "{}: cell_attackers({}) {} the {} on {}, ray walking says {}", p.fen(), sq_name(t),
            if att & sbit != 0 { "contains" } else { "does not contain" }, piece, sq_name(s), w);
        if w {
            ensure!(is_cell_attacked(&b, c, col_to_lib(me)), "{}: is_cell_attacked({}) is false but the {} on {} attacks it", p.fen(), sq_name(t), piece, sq_name(s));
        }
    }
    stats.label(piece);
    if blockers > 0 {
        stats.nontrivial(&(s, pc as u8, sub, flip, white));
    }
    Ok(())
}

fn api_driver(ctx: &RunCtx, stats: &mut Stats, rep: &mut Reporter) {
    let thorough = ctx.tier != Tier::Quick;
    // work items: 16 slices of the subset space of every (piece, square)
    par_chunks(16 * 192, stats, rep, |range, st, fails| {
        for i in range {
            let slice = i / 192;
            let piece = ["bishop", "rook", "queen"][(i % 192 / 64) as usize];
            let s = (i % 64) as u8;
            let mut rel: Vec<Sq> = Vec::new();
            if piece != "bishop" {
                rel.extend(relevant(s, &ROOK_D));
            }
            if piece != "rook" {
                rel.extend(relevant(s, &BISHOP_D));
            }
            let total = 1u64 << rel.len();
            let (lo, hi) = (slice * total / 16, (slice + 1) * total / 16);
            for sub in lo..hi {
                let mut occ = 0u64;
                for (j, t) in rel.iter().enumerate() {
                    if sub >> j & 1 == 1 {
                        occ |= 1u64 << sq_to_lib(*t).index();
                    }
                }
                // quick: sliders of one piece kind on all four (flip, colour) variants except the queen, which takes the
                // variant selected by the parity of the subset; thorough: everything on all four
                let variants: Vec<(bool, bool)> = if thorough || piece != "queen" {
                    vec![(false, true), (false, false), (true, true), (true, false)]
                } else {
                    let h = (sub ^ sub >> 7 ^ s as u64) & 3;
                    vec![(h & 1 == 1, h & 2 == 2)]
                };
                for (flip, white) in variants {
                    let case = json!({"piece": piece, "sq": s, "occ": format!("{:#x}", occ), "flip": flip, "white": white});
                    if let Err(f) = guarded("C15", "slider_subsets_through_public_api", api_check, &case, st) {
                        if fails.len() < 4 {
                            fails.push((case, f));
                        }
                    }
                }
            }
            if slice == 0 {
                st.add(&format!("{}_subsets", piece), total);
            }
        }
    });
}

/// Random full 64-bit occupancies (generated): independence from irrelevant bits, sampled.
fn gen_slider_case(cur: &mut crate::gen::Cursor) -> Value {
    let s = cur.below(64);
    let rook = cur.bool();
    let mut occ = cur.u64();
    match cur.below(4) {
        0 => occ &= cur.u64(),
        1 => occ |= cur.u64(),
        2 => occ &= cur.u64() & cur.u64(),
        _ => {}
    }
    json!({"piece": if rook { "rook" } else { "bishop" }, "sq": s, "occ": format!("{:#x}", occ)})
}

pub fn property() -> Property {
    Property {
        id: "C15",
        rule: "Exhaustive through the read-only hooks: king/knight/pawn tables for all 64 squares (x2 colours) against offset geometry; \
               alignment predicates for all 4,096 ordered pairs and between sets for all aligned pairs and a == b; sliders: for every \
               square every subset of the relevant blocker squares (107,648 subsets in total), each with (a) no other bit, (b) all \
               irrelevant bits set, (c) own square set, (d) k random irrelevant patterns (k = 16 quick, 128 thorough), (e) every single irrelevant bit on its own, against ray walking; \
               plus generated random 64-bit occupancies; and the same subsets for bishop, rook and queen (6,946,816 queen subsets) built as \
               valid positions (blockers = knights of both colours, kings off the relevant squares) and read through semilegal/legal move \
               generation, cell_attackers and is_cell_attacked. Non-trivial = slider case with >= 1 blocker / aligned pair / square; distinct by \
               (piece, square, occupancy).",
        assumptions: &[
            "between sets are only specified for aligned pairs (every caller establishes alignment first)",
            "exhaustive over relevant blocker subsets, sampled over irrelevant bits",
        ],
        subchecks: vec![
            SubCheck { name: "leapers_and_pawns", driver: Driver::Custom { run: leaper_driver }, check: leaper_check, configs: Configs::Both, required: &[], regressions: &[], exhaustive: true },
            SubCheck { name: "between_and_alignment", driver: Driver::Custom { run: pair_driver }, check: pair_check, configs: Configs::Both, required: &[], regressions: &[], exhaustive: true },
            SubCheck { name: "slider_subsets", driver: Driver::Custom { run: slider_driver }, check: slider_check, configs: Configs::Both, required: &[], regressions: &[], exhaustive: true },
            SubCheck { name: "slider_subsets_through_public_api", driver: Driver::Custom { run: api_driver }, check: api_check, configs: Configs::ReleaseOnly, required: &["bishop", "rook", "queen"], regressions: &[], exhaustive: true },
            SubCheck {
                name: "slider_random_occupancies",
                driver: Driver::Generated { gen: gen_slider_case, genome_len: 48, quick: 30_000_000, thorough: 300_000_000 },
                check: slider_check,
                configs: Configs::ReleaseOnly,
                required: &[],
                regressions: &[],
                exhaustive: false,
            },
        ],
    }
}

