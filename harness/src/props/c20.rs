//! C20 — core value types convert losslessly and bitboards behave as sets of squares.

use crate::engine::*;
use crate::gen::Cursor;
use crate::{ensure, fail};
use owlchess::types::{CastlingRights, CastlingSide, Cell, Color, Coord, File, Piece, Rank};
use owlchess::Bitboard;
use owlchess_base::{bitboard_consts, geometry};
use serde_json::{json, Value};
use std::collections::BTreeSet;
use std::panic::{catch_unwind, AssertUnwindSafe};
use std::str::FromStr;

fn panics<T>(f: impl FnOnce() -> T) -> bool {
    catch_unwind(AssertUnwindSafe(f)).is_err()
}

// ------------------------------------------------------------------------------------------
// index conversions and checked constructors

fn index_check(case: &Value, stats: &mut Stats) -> CheckResult {
    let i = case["index"].as_u64().unwrap_or(0) as usize;
    macro_rules! chk {
        ($name:expr, $n:expr, $from:expr, $idx:expr) => {{
            if i < $n {
                let r = catch_unwind(AssertUnwindSafe(|| $from(i)));
                match r {
                    Ok(v) => ensure!($idx(&v) == i, "{}::from_index({}).index() = {}", $name, i, $idx(&v)),
                    Err(_) => fail!("{}::from_index({}) panicked although the index is in range", $name, i),
                }
            } else {
                ensure!(panics(|| $from(i)), "{}::from_index({}) did not reject the out-of-range index", $name, i);
            }
        }};
    }
    chk!("File", 8, File::from_index, |v: &File| v.index());
    chk!("Rank", 8, Rank::from_index, |v: &Rank| v.index());
    chk!("Coord", 64, Coord::from_index, |v: &Coord| v.index());
    chk!("Piece", 6, Piece::from_index, |v: &Piece| v.index());
    chk!("Cell", 13, Cell::from_index, |v: &Cell| v.index());
    chk!("CastlingRights", 16, CastlingRights::from_index, |v: &CastlingRights| v.index());
    stats.label_if(i >= 64, "all_reject");
    stats.nontrivial(&i);
    Ok(())
}

fn index_driver(_ctx: &RunCtx, stats: &mut Stats, rep: &mut Reporter) {
    let mut idx: Vec<usize> = (0..=300).collect();
    for p in 9..64 {
        idx.push(1usize << p);
        idx.push((1usize << p) + 1);
        idx.push((1usize << p) - 1);
    }
    idx.push(usize::MAX);
    idx.push(usize::MAX - 1);
    // an in-range value with high bits added (a check done in a narrower type would let these through): every single
    // high bit, whole multiples of 2^8, 2^16, 2^32, and the top of the range
    for v in 0..64usize {
        for p in 4..usize::BITS {
            if (1usize << p) > v {
                idx.push((1usize << p) | v);
            }
        }
        for k in [1usize, 2, 3, 0xff, 0xffff, 0x7fff_ffff, 0xffff_ffff] {
            for sh in [8u32, 16, 32] {
                if let Some(x) = k.checked_shl(sh).filter(|x| x >> sh == k) {
                    idx.push(x | v);
                }
            }
        }
        idx.push(usize::MAX - v);
        idx.push((usize::MAX << 6) | v);
    }
    idx.sort_unstable();
    idx.dedup();
    for i in idx {
        let case = json!({"index": i as u64});
        if let Err(f) = guarded("C20", "index_conversions", index_check, &case, stats) {
            rep(case, f);
        }
    }
    // iterators and structural facts, once
    let case = json!({"structural": true});
    if let Err(f) = guarded("C20", "index_conversions", structural_check, &case, stats) {
        rep(case, f);
    }
}

fn structural_check(_case: &Value, stats: &mut Stats) -> CheckResult {
    ensure!(File::iter().map(|f| f.index()).collect::<Vec<_>>() == (0..8).collect::<Vec<_>>(), "File::iter order");
    ensure!(Rank::iter().map(|f| f.index()).collect::<Vec<_>>() == (0..8).collect::<Vec<_>>(), "Rank::iter order");
    ensure!(Coord::iter().map(|f| f.index()).collect::<Vec<_>>() == (0..64).collect::<Vec<_>>(), "Coord::iter order");
    ensure!(Piece::iter().map(|f| f.index()).collect::<Vec<_>>() == (0..6).collect::<Vec<_>>(), "Piece::iter order");
    ensure!(Cell::iter().map(|f| f.index()).collect::<Vec<_>>() == (0..13).collect::<Vec<_>>(), "Cell::iter order");
    // cells: parts <-> cell
    let mut seen = BTreeSet::new();
    ensure!(Cell::EMPTY.index() == 0 && Cell::EMPTY.is_free() && !Cell::EMPTY.is_occupied(), "Cell::EMPTY");
    ensure!(Cell::EMPTY.color().is_none() && Cell::EMPTY.piece().is_none(), "Cell::EMPTY parts");
    for c in [Color::White, Color::Black] {
        for p in Piece::iter() {
            let cell = Cell::from_parts(c, p);
            ensure!(cell.color() == Some(c) && cell.piece() == Some(p), "Cell::from_parts({:?},{:?}) parts", c, p);
            ensure!(cell.is_occupied() && !cell.is_free(), "occupied flags");
            ensure!(seen.insert(cell.index()), "Cell::from_parts not injective");
            ensure!((1..13).contains(&cell.index()), "cell index range");
        }
    }
    ensure!(Color::White.inv() == Color::Black && Color::Black.inv() == Color::White, "Color::inv");
    // coords: parts
    for f in File::iter() {
        for r in Rank::iter() {
            let c = Coord::from_parts(f, r);
            ensure!(c.file() == f && c.rank() == r, "Coord parts round trip");
            ensure!(c.index() == r.index() * 8 + f.index(), "Coord index layout");
        }
    }
    // castling rights: bit structure
    for i in 0..16 {
        let cr = CastlingRights::from_index(i);
        let mut rebuilt = CastlingRights::EMPTY;
        for c in [Color::White, Color::Black] {
            let mut any = false;
            for s in [CastlingSide::King, CastlingSide::Queen] {
                if cr.has(c, s) {
                    any = true;
                    rebuilt = rebuilt.with(c, s);
                    ensure!(cr.without(c, s).index() != i && cr.without(c, s).with(c, s) == cr, "with/without inverse");
                } else {
                    ensure!(cr.without(c, s) == cr && cr.with(c, s).has(c, s), "with/without on absent right");
                }
                let mut m = cr;
                m.set(c, s);
                ensure!(m == cr.with(c, s), "set == with");
                let mut m = cr;
                m.unset(c, s);
                ensure!(m == cr.without(c, s), "unset == without");
            }
            ensure!(cr.has_color(c) == any, "has_color");
            let mut m = cr;
            m.unset_color(c);
            ensure!(!m.has_color(c), "unset_color");
            ensure!(m.has_color(c.inv()) == cr.has_color(c.inv()), "unset_color touches the other colour");
        }
        ensure!(rebuilt == cr, "rights rebuilt from has()");
    }
    ensure!(CastlingRights::EMPTY.index() == 0 && CastlingRights::FULL.index() == 15, "EMPTY/FULL");
    stats.nontrivial(&"structural");
    Ok(())
}

// ------------------------------------------------------------------------------------------
// characters: all Unicode scalar values

fn char_check(case: &Value, stats: &mut Stats) -> CheckResult {
    let lo = case["from"].as_u64().unwrap_or(0) as u32;
    let hi = case["to"].as_u64().unwrap_or(0) as u32;
    for v in lo..hi {
        let c = match char::from_u32(v) {
            Some(c) => c,
            None => continue,
        };
        let f = File::from_char(c);
        let want = "abcdefgh".find(c);
        ensure!(f.map(|x| x.index()) == want, "File::from_char({:?}) = {:?}", c, f);
        let r = Rank::from_char(c);
        let want = "87654321".find(c);
        ensure!(r.map(|x| x.index()) == want, "Rank::from_char({:?}) = {:?}", c, r);
        let col = Color::from_char(c);
        let want = match c {
            'w' => Some(Color::White),
            'b' => Some(Color::Black),
            _ => None,
        };
        ensure!(col == want, "Color::from_char({:?}) = {:?}", c, col);
        let cell = Cell::from_char(c);
        let want = ".PKNBRQpknbrq".find(c);
        ensure!(cell.map(|x| x.index()) == want, "Cell::from_char({:?}) = {:?}", c, cell);
        stats.count(1);
    }
    if lo == 0 {
        for f in File::iter() {
            ensure!(File::from_char(f.as_char()) == Some(f) && f.to_string() == f.as_char().to_string(), "File char round trip");
        }
        for r in Rank::iter() {
            ensure!(Rank::from_char(r.as_char()) == Some(r) && r.to_string() == r.as_char().to_string(), "Rank char round trip");
        }
        for c in Cell::iter() {
            ensure!(Cell::from_char(c.as_char()) == Some(c), "Cell char round trip");
            ensure!(".♙♔♘♗♖♕♟♚♞♝♜♛".chars().nth(c.index()) == Some(c.as_utf8_char()), "Cell::as_utf8_char");
        }
        for c in [Color::White, Color::Black] {
            ensure!(Color::from_char(c.as_char()) == Some(c), "Color char round trip");
        }
        ensure!(Color::White.as_long_str() == "white" && Color::Black.as_long_str() == "black", "as_long_str");
    }
    stats.nontrivial(&lo);
    Ok(())
}

fn char_driver(_ctx: &RunCtx, stats: &mut Stats, rep: &mut Reporter) {
    let step = 0x110000u64 / 64;
    par_chunks(64, stats, rep, |range, st, fails| {
        for i in range {
            let case = json!({"from": i * step, "to": (i + 1) * step});
            if let Err(f) = guarded("C20", "all_unicode_chars", char_check, &case, st) {
                fails.push((case, f));
            }
        }
    });
}

// ------------------------------------------------------------------------------------------
// strings

/// Documented spelling: "-" or a non-empty duplicate-free string over KQkq. Returns which of K,Q,k,q are present.
fn want_rights(s: &str) -> Option<[bool; 4]> {
    if s == "-" {
        return Some([false; 4]);
    }
    if s.is_empty() {
        return None;
    }
    let mut v = [false; 4];
    for ch in s.chars() {
        let i = "KQkq".find(ch)?;
        if v[i] {
            return None;
        }
        v[i] = true;
    }
    Some(v)
}

fn rights_flags(c: &CastlingRights) -> [bool; 4] {
    [
        c.has(Color::White, CastlingSide::King),
        c.has(Color::White, CastlingSide::Queen),
        c.has(Color::Black, CastlingSide::King),
        c.has(Color::Black, CastlingSide::Queen),
    ]
}

fn str_check(case: &Value, stats: &mut Stats) -> CheckResult {
    let s = case["text"].as_str().unwrap_or("");
    let chars: Vec<char> = s.chars().collect();
    // Coord
    let want = if chars.len() == 2 {
        match ("abcdefgh".find(chars[0]), "87654321".find(chars[1])) {
            (Some(f), Some(r)) => Some(r * 8 + f),
            _ => None,
        }
    } else {
        None
    };
    let got = Coord::from_str(s);
    ensure!(got.as_ref().ok().map(|c| c.index()) == want, "Coord::from_str({:?}) = {:?}, documented spelling gives {:?}", s, got, want);
    if let Ok(c) = got {
        ensure!(c.to_string() == s, "Coord Display of parse({:?}) = {:?}", s, c.to_string());
        stats.label("coord_ok");
    }
    // Color
    let want = match s {
        "w" => Some(Color::White),
        "b" => Some(Color::Black),
        _ => None,
    };
    let got = Color::from_str(s);
    ensure!(got.as_ref().ok().copied() == want, "Color::from_str({:?}) = {:?}", s, got);
    if let Ok(c) = got {
        ensure!(c.to_string() == s, "Color Display");
        stats.label("color_ok");
    }
    // Cell
    let want = if chars.len() == 1 { ".PKNBRQpknbrq".find(chars[0]) } else { None };
    let got = Cell::from_str(s);
    ensure!(got.as_ref().ok().map(|c| c.index()) == want, "Cell::from_str({:?}) = {:?}", s, got);
    if let Ok(c) = got {
        ensure!(c.to_string() == s, "Cell Display");
        stats.label("cell_ok");
    }
    // CastlingRights
    let want = want_rights(s);
    let got = CastlingRights::from_str(s);
    ensure!(got.as_ref().ok().map(rights_flags) == want, "CastlingRights::from_str({:?}) = {:?}, documented spelling gives KQkq flags {:?}", s, got, want);
    if let Ok(c) = got {
        let t = c.to_string();
        ensure!(CastlingRights::from_str(&t) == Ok(c), "CastlingRights Display {:?} does not parse back", t);
        let mut a: Vec<char> = t.chars().collect();
        let mut b: Vec<char> = s.chars().collect();
        a.sort();
        b.sort();
        ensure!(a == b, "CastlingRights Display {:?} is not a reordering of {:?}", t, s);
        // canonical order
        let canon: String = "KQkq".chars().filter(|ch| s.contains(*ch)).collect();
        ensure!(t == if canon.is_empty() { "-".to_string() } else { canon }, "CastlingRights Display {:?} not in KQkq order", t);
        stats.label("rights_ok");
    }
    if !s.is_ascii() {
        stats.label("non_ascii");
    }
    stats.nontrivial(&s.to_string());
    Ok(())
}

const STR_ALPHABET: &str = "abgh1278KQkqwbPNpr.- xé€\u{80}♘0i9Z";

fn str_driver(_ctx: &RunCtx, stats: &mut Stats, rep: &mut Reporter) {
    let chars: Vec<char> = STR_ALPHABET.chars().collect();
    let n = chars.len() as u64;
    // lengths 0..=3 exhaustively, plus all KQkq strings up to length 5 and all 64 squares / 13 cells
    let total = 1 + n + n * n + n * n * n;
    let chars = &chars;
    par_chunks(total, stats, rep, |range, st, fails| {
        for mut i in range {
            let mut s = String::new();
            if i >= 1 {
                i -= 1;
                if i < n {
                    s.push(chars[i as usize]);
                } else {
                    i -= n;
                    if i < n * n {
                        s.push(chars[(i / n) as usize]);
                        s.push(chars[(i % n) as usize]);
                    } else {
                        i -= n * n;
                        s.push(chars[(i / (n * n)) as usize]);
                        s.push(chars[(i / n % n) as usize]);
                        s.push(chars[(i % n) as usize]);
                    }
                }
            }
            let case = json!({"text": s});
            if let Err(f) = guarded("C20", "short_strings", str_check, &case, st) {
                if fails.len() < 4 {
                    fails.push((case, f));
                }
            }
        }
    });
    let mut extra: Vec<String> = Vec::new();
    for f in "abcdefgh".chars() {
        for r in "12345678".chars() {
            extra.push(format!("{}{}", f, r));
        }
    }
    for c in ".PKNBRQpknbrq".chars() {
        extra.push(c.to_string());
    }
    let kq: Vec<char> = "KQkq".chars().collect();
    for len in 1..=5u32 {
        for mut i in 0..4u32.pow(len) {
            let mut s = String::new();
            for _ in 0..len {
                s.push(kq[(i % 4) as usize]);
                i /= 4;
            }
            extra.push(s);
        }
    }
    // a documented spelling (or nothing) padded to lengths around 2^8, 2^9 and 2^16: a length or cursor kept in a narrower
    // type would see only the remainder
    for base in ["", "-", "K", "Kq", "KQkq", "e4", "w", "P", "."] {
        for pad in ['-', 'K', ' ', 'x', 'q', '4'] {
            for total in [255usize, 256, 257, 258, 259, 260, 511, 512, 513, 514, 65536, 65537, 65538, 65540] {
                let fill: String = std::iter::repeat(pad).take(total - base.len()).collect();
                extra.push(format!("{}{}", base, fill));
                extra.push(format!("{}{}", fill, base));
            }
        }
    }
    for s in extra {
        let case = json!({"text": s});
        if s.len() >= 255 {
            stats.label("padded_to_a_power_of_two_length");
        }
        if let Err(f) = guarded("C20", "short_strings", str_check, &case, stats) {
            rep(case, f);
        }
    }
}

fn gen_str_case(cur: &mut Cursor) -> Value {
    let s = crate::gen::strings::alphabet_string(cur, "abcdefgh12345678KQkqwb.PNBRpnbr- ", 6);
    json!({"text": s})
}

// ------------------------------------------------------------------------------------------
// square arithmetic and named constants

fn geometry_check(_case: &Value, stats: &mut Stats) -> CheckResult {
    for i in 0..64usize {
        let c = Coord::from_index(i);
        let (f, r) = ((i % 8) as isize, (i / 8) as isize);
        ensure!(c.file().index() as isize == f && c.rank().index() as isize == r, "file()/rank() of index {}", i);
        ensure!(c.to_string() == format!("{}{}", (b'a' + f as u8) as char, (b'8' - r as u8) as char), "Display of index {}: {}", i, c);
        ensure!(c.flipped_rank().index() == ((7 - r) * 8 + f) as usize, "flipped_rank of {}", c);
        ensure!(c.flipped_file().index() == (r * 8 + 7 - f) as usize, "flipped_file of {}", c);
        ensure!(c.diag() as isize == f + r, "diag of {}", c);
        ensure!(c.antidiag() as isize == 7 - r + f, "antidiag of {}", c);
        for d in -70isize..=70 {
            let t = i as isize + d;
            if (0..64).contains(&t) {
                let got = catch_unwind(AssertUnwindSafe(|| c.add(d)));
                match got {
                    Ok(x) => ensure!(x.index() as isize == t, "Coord({}).add({}) = {}", i, d, x.index()),
                    Err(_) => fail!("Coord({}).add({}) panicked although the result {} is on the board", i, d, t),
                }
            } else {
                ensure!(panics(|| c.add(d)), "Coord({}).add({}) did not panic although the result {} is off the board", i, d, t);
            }
        }
        // small deltas exhaustively, plus deltas around every power of two and the extremes of isize
        let mut deltas: Vec<isize> = (-9isize..=9).collect();
        for k in 4..63u32 {
            for off in [-1isize, 0, 1] {
                deltas.push((1isize << k).wrapping_add(off));
                deltas.push((1isize << k).wrapping_neg().wrapping_add(off));
            }
        }
        deltas.extend_from_slice(&[isize::MIN, isize::MIN + 1, isize::MAX, isize::MAX - 1, 248, 249, -248, -249, 250, -250]);
        for &df in &deltas {
            for &dr in &deltas {
                let (nf, nr) = (f as i128 + df as i128, r as i128 + dr as i128);
                let want = if (0..8).contains(&nf) && (0..8).contains(&nr) { Some((nr * 8 + nf) as usize) } else { None };
                let got = catch_unwind(AssertUnwindSafe(|| c.shift(df, dr)));
                match got {
                    Ok(g) => ensure!(g.map(|x| x.index()) == want, "Coord({}).shift({}, {}) = {:?}, geometry gives {:?}", c, df, dr, g, want),
                    Err(_) => fail!("Coord({}).shift({}, {}) panicked", c, df, dr),
                }
            }
        }
        for &d in &deltas {
            let t = i as i128 + d as i128;
            if (0..64).contains(&t) {
                ensure!(!panics(|| c.add(d)), "Coord({}).add({}) panicked although the result is on the board", i, d);
            } else {
                ensure!(panics(|| c.add(d)), "Coord({}).add({}) did not panic although the result is off the board", i, d);
            }
        }
        // named constants
        for k in 0..15 {
            ensure!(bitboard_consts::DIAG[k].has(c) == (c.diag() == k) && (c.diag() == k) == (f + r == k as isize), "DIAG[{}] membership of {}", k, c);
            ensure!(bitboard_consts::ANTIDIAG[k].has(c) == (7 - r + f == k as isize), "ANTIDIAG[{}] membership of {}", k, c);
        }
        for k in 0..8 {
            ensure!(bitboard_consts::rank(Rank::from_index(k)).has(c) == (r == k as isize), "rank({}) membership of {}", k, c);
            ensure!(bitboard_consts::file(File::from_index(k)).has(c) == (f == k as isize), "file({}) membership of {}", k, c);
        }
        // a1 is dark: square colour from algebraic coordinates (file a = 1, rank 1 = 1): light iff odd sum
        let alg_rank = 8 - r; // 1..8
        let alg_file = f + 1; // 1..8
        let light = (alg_rank + alg_file) % 2 == 1;
        ensure!(bitboard_consts::LIGHT_SQUARES.has(c) == light, "LIGHT_SQUARES membership of {}", c);
        ensure!(bitboard_consts::DARK_SQUARES.has(c) == !light, "DARK_SQUARES membership of {}", c);
    }
    ensure!(bitboard_consts::LIGHT_SQUARES.len() == 32 && bitboard_consts::DARK_SQUARES.len() == 32, "square colour counts");
    // geometry by colour
    use Color::*;
    ensure!(geometry::castling_rank(White) == Rank::R1 && geometry::castling_rank(Black) == Rank::R8, "castling_rank");
    ensure!(geometry::double_move_src_rank(White) == Rank::R2 && geometry::double_move_src_rank(Black) == Rank::R7, "double_move_src_rank");
    ensure!(geometry::double_move_dst_rank(White) == Rank::R4 && geometry::double_move_dst_rank(Black) == Rank::R5, "double_move_dst_rank");
    ensure!(geometry::promote_src_rank(White) == Rank::R7 && geometry::promote_src_rank(Black) == Rank::R2, "promote_src_rank");
    ensure!(geometry::promote_dst_rank(White) == Rank::R8 && geometry::promote_dst_rank(Black) == Rank::R1, "promote_dst_rank");
    ensure!(geometry::enpassant_src_rank(White) == Rank::R5 && geometry::enpassant_src_rank(Black) == Rank::R4, "enpassant_src_rank");
    ensure!(geometry::enpassant_dst_rank(White) == Rank::R6 && geometry::enpassant_dst_rank(Black) == Rank::R3, "enpassant_dst_rank");
    for c in [White, Black] {
        let e4 = Coord::from_str("e4").unwrap();
        let fwd = e4.add(geometry::pawn_forward_delta(c));
        let left = e4.add(geometry::pawn_left_delta(c));
        let right = e4.add(geometry::pawn_right_delta(c));
        let up = if c == White { "5" } else { "3" };
        ensure!(fwd.to_string() == format!("e{}", up), "pawn_forward_delta({:?})", c);
        ensure!(left.to_string() == format!("d{}", up), "pawn_left_delta({:?})", c);
        ensure!(right.to_string() == format!("f{}", up), "pawn_right_delta({:?})", c);
    }
    ensure!(Rank::R1.as_char() == '1' && Rank::R8.as_char() == '8' && Rank::R8.index() == 0, "rank naming");
    ensure!(File::A.as_char() == 'a' && File::H.as_char() == 'h' && File::A.index() == 0, "file naming");
    stats.count(64 * (141 + 361 + 48));
    stats.nontrivial(&"geometry");
    stats.nontrivial(&"constants");
    Ok(())
}

fn geometry_driver(_ctx: &RunCtx, stats: &mut Stats, rep: &mut Reporter) {
    let case = json!({"all": "squares x deltas, named constants, geometry"});
    if let Err(f) = guarded("C20", "square_arithmetic_and_constants", geometry_check, &case, stats) {
        rep(case, f);
    }
}

// ------------------------------------------------------------------------------------------
// bitboards as sets

fn model(v: u64) -> BTreeSet<u8> {
    (0..64u8).filter(|i| v >> i & 1 == 1).collect()
}
fn unmodel(s: &BTreeSet<u8>) -> u64 {
    s.iter().fold(0u64, |a, i| a | 1u64 << i)
}

fn bitboard_ops(a: u64, b: u64, x: u64, sq: usize, by: usize) -> CheckResult {
    let (ba, bb) = (Bitboard::from_raw(a), Bitboard::from_raw(b));
    let (sa, sb) = (model(a), model(b));
    ensure!(ba.as_raw() == a && u64::from(ba) == a && Bitboard::from(a) == ba, "raw conversions");
    ensure!(model((ba | bb).as_raw()) == sa.union(&sb).copied().collect::<BTreeSet<u8>>(), "union of {:#x}, {:#x}", a, b);
    ensure!(model((ba & bb).as_raw()) == sa.intersection(&sb).copied().collect::<BTreeSet<u8>>(), "intersection of {:#x}, {:#x}", a, b);
    ensure!(model((ba ^ bb).as_raw()) == sa.symmetric_difference(&sb).copied().collect::<BTreeSet<u8>>(), "symmetric difference of {:#x}, {:#x}", a, b);
    ensure!(model((!ba).as_raw()) == (0..64u8).filter(|i| !sa.contains(i)).collect::<BTreeSet<u8>>(), "complement of {:#x}", a);
    let mut t = ba;
    t |= bb;
    ensure!(t == (ba | bb), "|=");
    let mut t = ba;
    t &= bb;
    ensure!(t == (ba & bb), "&=");
    let mut t = ba;
    t ^= bb;
    ensure!(t == (ba ^ bb), "^=");
    let c = Coord::from_index(sq);
    let mut w = sa.clone();
    w.insert(sq as u8);
    ensure!(model(ba.with(c).as_raw()) == w, "with({}) on {:#x}", c, a);
    ensure!(ba.with2(c.file(), c.rank()) == ba.with(c), "with2");
    let mut wo = sa.clone();
    wo.remove(&(sq as u8));
    ensure!(model(ba.without(c).as_raw()) == wo, "without({}) on {:#x}", c, a);
    ensure!(ba.without2(c.file(), c.rank()) == ba.without(c), "without2");
    let mut m = ba;
    m.set(c);
    ensure!(m == ba.with(c), "set");
    let mut m = ba;
    m.unset(c);
    ensure!(m == ba.without(c), "unset");
    ensure!(ba.has(c) == sa.contains(&(sq as u8)), "has({}) on {:#x}", c, a);
    ensure!(Bitboard::from_coord(c).as_raw() == 1u64 << sq, "from_coord");
    ensure!(ba.len() as usize == sa.len(), "len of {:#x}", a);
    ensure!(ba.is_empty() == sa.is_empty() && ba.is_nonempty() == !sa.is_empty(), "is_empty of {:#x}", a);
    let it: Vec<u8> = ba.into_iter().map(|c| c.index() as u8).collect();
    ensure!(it == sa.iter().copied().collect::<Vec<u8>>(), "ascending iteration of {:#x}: {:?}", a, it);
    iterator_protocol(ba, &it, &[0, 1, by % 8, sq, by, 62, 63, 64, 65, 127, 128, 1 << 32, usize::MAX])?;
    ensure!(model(ba.shl(by).as_raw()) == sa.iter().filter_map(|i| if *i as usize + by < 64 { Some(i + by as u8) } else { None }).collect::<BTreeSet<u8>>(), "shl({}) of {:#x}", by, a);
    ensure!(model(ba.shr(by).as_raw()) == sa.iter().filter_map(|i| if *i as usize >= by { Some(i - by as u8) } else { None }).collect::<BTreeSet<u8>>(), "shr({}) of {:#x}", by, a);
    ensure!(model(ba.flipped_rank().as_raw()) == sa.iter().map(|i| i ^ 56).collect::<BTreeSet<u8>>(), "flipped_rank of {:#x}", a);
    ensure!(model(ba.flipped_file().as_raw()) == sa.iter().map(|i| i ^ 7).collect::<BTreeSet<u8>>(), "flipped_file of {:#x}", a);
    ensure!(ba.flipped_rank().flipped_rank() == ba && ba.flipped_file().flipped_file() == ba, "flips are involutions");
    // deposit: the j-th lowest element of the set receives bit j of x
    let mut dep = BTreeSet::new();
    for (j, i) in sa.iter().enumerate() {
        if x >> j & 1 == 1 {
            dep.insert(*i);
        }
    }
    ensure!(model(ba.deposit_bits(x).as_raw()) == dep, "deposit_bits({:#x}) into {:#x}", x, a);
    // Display: 8 groups of 8, index g*8+k at group g position k
    let txt = ba.to_string();
    let groups: Vec<&str> = txt.split('/').collect();
    ensure!(groups.len() == 8 && groups.iter().all(|g| g.len() == 8), "Display shape {:?}", txt);
    for (g, grp) in groups.iter().enumerate() {
        for (k, ch) in grp.chars().enumerate() {
            ensure!((ch == '1') == sa.contains(&((g * 8 + k) as u8)) && (ch == '0' || ch == '1'), "Display of {:#x}: {:?}", a, txt);
        }
    }
    let _ = format!("{:?}", ba); // Debug output is not specified by the property: it only must not panic
    ensure!(unmodel(&sa) == a, "harness model");
    Ok(())
}

/// "Ascending iteration" through every way std drives an iterator: whatever Iterator methods the type overrides (nth,
/// count, last, size_hint, fold, ...) must behave like the same calls on the ascending list of elements.
fn iterator_protocol(ba: Bitboard, want: &[u8], ks: &[usize]) -> CheckResult {
    let ix = |c: Coord| c.index() as u8;
    let n = want.len();
    let (lo, hi) = ba.into_iter().size_hint();
    ensure!(lo <= n && hi.map_or(true, |h| h >= n), "size_hint ({}, {:?}) excludes the real length {}", lo, hi, n);
    ensure!(ba.into_iter().count() == n, "count() of the iterator over {:#x}", ba.as_raw());
    ensure!(ba.into_iter().last().map(ix) == want.last().copied(), "last() of the iterator over {:#x}", ba.as_raw());
    ensure!(ba.into_iter().map(ix).min() == want.first().copied() && ba.into_iter().map(ix).max() == want.last().copied(), "min/max over {:#x}", ba.as_raw());
    ensure!(ba.into_iter().fold(0u64, |a, c| a.wrapping_mul(67).wrapping_add(c.index() as u64 + 1)) == want.iter().fold(0u64, |a, c| a.wrapping_mul(67).wrapping_add(*c as u64 + 1)), "fold over {:#x}", ba.as_raw());
    for &k in ks {
        let mut it = ba.into_iter();
        let mut wt = want.iter().copied();
        let (g, w) = (it.nth(k).map(ix), wt.nth(k));
        ensure!(g == w, "nth({}) on the iterator over {:#x} gives {:?}, the ascending list gives {:?}", k, ba.as_raw(), g, w);
        let (g, w) = (it.nth(k % 3).map(ix), wt.nth(k % 3));
        ensure!(g == w, "second nth({}) after nth({}) over {:#x} gives {:?} instead of {:?}", k % 3, k, ba.as_raw(), g, w);
        let (g, w): (Vec<u8>, Vec<u8>) = (it.map(ix).collect(), wt.collect());
        ensure!(g == w, "elements after nth({}) over {:#x}: {:?} instead of {:?}", k, ba.as_raw(), g, w);
        let (g, w): (Vec<u8>, Vec<u8>) = (ba.into_iter().skip(k).map(ix).collect(), want.iter().copied().skip(k).collect());
        ensure!(g == w, "skip({}) over {:#x}: {:?} instead of {:?}", k, ba.as_raw(), g, w);
        let (g, w): (Vec<u8>, Vec<u8>) = (ba.into_iter().take(k).map(ix).collect(), want.iter().copied().take(k).collect());
        ensure!(g == w, "take({}) over {:#x}", k, ba.as_raw());
        if k > 0 {
            let (g, w): (Vec<u8>, Vec<u8>) = (ba.into_iter().step_by(k).map(ix).collect(), want.iter().copied().step_by(k).collect());
            ensure!(g == w, "step_by({}) over {:#x}: {:?} instead of {:?}", k, ba.as_raw(), g, w);
        }
        // next() keeps returning None after the end
        let mut it = ba.into_iter();
        let _ = it.nth(k);
        let _ = it.by_ref().count();
        ensure!(it.next().is_none() && it.next().is_none(), "iterator over {:#x} yields elements after its end", ba.as_raw());
    }
    Ok(())
}

fn gen_bb_case(cur: &mut Cursor) -> Value {
    let mut a = cur.u64();
    let mut b = cur.u64();
    match cur.below(5) {
        0 => a &= cur.u64(),
        1 => a |= cur.u64(),
        2 => {
            a &= cur.u64() & cur.u64();
            b &= cur.u64()
        }
        3 => a = 1u64 << cur.below(64) | 1u64 << cur.below(64),
        _ => {}
    }
    // sets made of whole 8-, 16- and 32-square blocks (ranks, rank pairs, halves), possibly with a little noise: a
    // routine that treats a full block as a special case meets one here
    if cur.chance(40) {
        let mut m = 0u64;
        let sel = cur.u8();
        match sel % 3 {
            0 => {
                for r in 0..8 {
                    if cur.bool() {
                        m |= 0xffu64 << (8 * r);
                    }
                }
            }
            1 => {
                for r in 0..4 {
                    if cur.bool() {
                        m |= 0xffffu64 << (16 * r);
                    }
                }
            }
            _ => m = if cur.bool() { 0xffff_ffff } else { 0xffff_ffff_0000_0000 },
        }
        let noise = cur.u64() & cur.u64() & cur.u64() & cur.u64();
        a = match cur.below(3) {
            0 => m,
            1 => m | noise,
            _ => m & !noise,
        };
    }
    // extreme sets: empty, full, one element, all but one
    match cur.below(24) {
        0 => a = 0,
        1 => a = u64::MAX,
        2 => a = 1u64 << cur.below(64),
        3 => a = !(1u64 << cur.below(64)),
        4 => b = u64::MAX,
        5 => b = 0,
        _ => {}
    }
    json!({"a": format!("{:#x}", a), "b": format!("{:#x}", b), "x": format!("{:#x}", cur.u64()), "sq": cur.below(64), "by": cur.below(64)})
}

fn hex(v: &Value) -> u64 {
    u64::from_str_radix(v.as_str().unwrap_or("0").trim_start_matches("0x"), 16).unwrap_or(0)
}

fn bb_check(case: &Value, stats: &mut Stats) -> CheckResult {
    let (a, b, x) = (hex(&case["a"]), hex(&case["b"]), hex(&case["x"]));
    bitboard_ops(a, b, x, case["sq"].as_u64().unwrap_or(0) as usize % 64, case["by"].as_u64().unwrap_or(0) as usize % 64)?;
    stats.label_if(a.count_ones() >= 2, "two_or_more_elements");
    stats.label_if(a == u64::MAX, "full_set");
    stats.label_if(a == 0, "empty_set");
    if a.count_ones() >= 2 {
        stats.nontrivial(&(a, b));
    }
    Ok(())
}

fn band_driver(ctx: &RunCtx, stats: &mut Stats, rep: &mut Reporter) {
    // all 2^16 sets confined to each 16-square band; partner set / deposit word / square derived by hashing
    let seed = ctx.seed;
    par_chunks(4 * 65536, stats, rep, |range, st, fails| {
        for i in range {
            let band = i / 65536;
            let a = (i % 65536) << (16 * band);
            let h = crate::gen::splitmix(seed ^ i);
            let b = crate::gen::splitmix(h);
            let r = bitboard_ops(a, b, h, (h % 64) as usize, ((h >> 8) % 64) as usize);
            st.count(1);
            match r {
                Ok(()) => {
                    if a.count_ones() >= 2 {
                        st.nontrivial(&a);
                    }
                }
                Err(f) => {
                    if fails.len() < 4 {
                        fails.push((json!({"a": format!("{:#x}", a), "b": format!("{:#x}", b), "x": format!("{:#x}", h), "sq": h % 64, "by": (h >> 8) % 64}), f));
                    }
                }
            }
        }
    });
    stats.sample(json!({"a": "0x8001", "band": 0}));
    // the extreme sets, with several deposit words each
    for a in [0u64, u64::MAX, 1, 1u64 << 63, !1u64, !(1u64 << 63), u64::MAX >> 1, u64::MAX << 1] {
        for x in [0u64, 1, u64::MAX, 0xdead_beef_0123_4567, 1u64 << 63] {
            stats.count(1);
            if let Err(f) = bitboard_ops(a, !a, x, 0, 63).and_then(|_| bitboard_ops(a, a, x, 63, 1)) {
                rep(json!({"a": format!("{:#x}", a), "b": format!("{:#x}", !a), "x": format!("{:#x}", x), "sq": 0, "by": 63}), f);
            }
        }
    }
}

pub fn property() -> Property {
    Property {
        id: "C20",
        rule: "Exhaustive: index <-> value for File/Rank/Coord/Piece/Cell/CastlingRights, from_index panics exactly outside the range \
               (indices 0..=300, powers of two +-1, usize::MAX); from_char over all 1,112,064 Unicode scalar values accepts exactly the \
               documented characters; FromStr for Coord/Color/Cell/CastlingRights over all strings of length <= 3 over a 32-symbol \
               alphabet (incl. multi-byte), all KQkq strings of length <= 5, all squares and cells, plus generated strings, with \
               Display o FromStr identity; Coord::add panics exactly when leaving the board (64 x 141 deltas), shift, flips, \
               diag/antidiag, named DIAG/ANTIDIAG/rank/file/LIGHT/DARK constants and geometry::* against coordinate definitions; \
               Bitboard operations against a BTreeSet model on all 2^16 sets in each 16-square band and on generated 64-bit sets. \
               Non-trivial = set with >= 2 elements / any string / any index; distinct by value.",
        assumptions: &["catch_unwind observes the documented panics of the checked constructors"],
        subchecks: vec![
            SubCheck { name: "index_conversions", driver: Driver::Custom { run: index_driver }, check: index_check, configs: Configs::Both, required: &["all_reject"], regressions: &[], exhaustive: true },
            SubCheck { name: "all_unicode_chars", driver: Driver::Custom { run: char_driver }, check: char_check, configs: Configs::Both, required: &[], regressions: &[], exhaustive: true },
            SubCheck { name: "short_strings", driver: Driver::Custom { run: str_driver }, check: str_check, configs: Configs::Both, required: &["coord_ok", "color_ok", "cell_ok", "rights_ok", "non_ascii"], regressions: &[], exhaustive: true },
            SubCheck {
                name: "generated_strings",
                driver: Driver::Generated { gen: gen_str_case, genome_len: 32, quick: 4_500_000, thorough: 40_000_000 },
                check: str_check,
                configs: Configs::ReleaseOnly,
                required: &["coord_ok", "rights_ok"],
                regressions: &[],
                exhaustive: false,
            },
            SubCheck { name: "square_arithmetic_and_constants", driver: Driver::Custom { run: geometry_driver }, check: geometry_check, configs: Configs::Both, required: &[], regressions: &[], exhaustive: true },
            SubCheck { name: "bitboard_bands", driver: Driver::Custom { run: band_driver }, check: bb_check, configs: Configs::Both, required: &[], regressions: &[], exhaustive: true },
            SubCheck {
                name: "bitboard_random",
                driver: Driver::Generated { gen: gen_bb_case, genome_len: 64, quick: 4_500_000, thorough: 40_000_000 },
                check: bb_check,
                configs: Configs::Both,
                required: &["two_or_more_elements", "full_set", "empty_set"],
                regressions: &[],
                exhaustive: false,
            },
        ],
    }
}
