//! C03 — applying a move produces the position the rules prescribe.

use crate::common::*;
use crate::conv::*;
use crate::engine::*;
use crate::refmodel::*;
use crate::{ensure, fail};
use owlchess::moves::make::Uci;
use owlchess::{Board, Make};
use serde_json::Value;

pub fn check_position(b: &Board, r: &RefPos, stats: &mut Stats) -> CheckResult {
    let l = r.legal();
    let mut interesting = false;
    for m in &l {
        let mv = mv_to_lib(m).map_err(Failure::new)?;
        let nb = match b.make_move(mv) {
            Ok(x) => x,
            Err(e) => fail!("legal move {} refused by Board::make_move: {}", m.uci(), e),
        };
        let want = r.apply(m);
        let want_raw = raw_from_ref(&want);
        if *nb.raw() != want_raw {
            fail!("after {:?}/{}: library {} but the rules prescribe {}", m.kind, m.uci(), nb.raw().as_fen(), want.fen());
        }
        ensure!(nb.as_fen() == want.fen(), "FEN of the result differs: {} vs reference {}", nb.as_fen(), want.fen());
        // never wraps
        if !(m.man.1 == Pc::P || r.is_capture(m)) {
            ensure!(nb.raw().move_counter >= r.half, "half-move clock wrapped: {} -> {}", r.half, nb.raw().move_counter);
        }
        ensure!(nb.raw().move_number >= r.full, "move number wrapped: {} -> {}", r.full, nb.raw().move_number);
        // the same through make_raw on a clone, and through the UCI wrapper
        let mut c = b.clone();
        match mv.make_raw(&mut c) {
            Ok((m2, _)) => {
                ensure!(m2 == mv, "make_raw returned a different move");
                ensure!(*c.raw() == want_raw, "make_raw result differs from make result");
            }
            Err(e) => fail!("legal move {} refused by make_raw: {}", m.uci(), e),
        }
        match b.make_move(Uci(m.uci())) {
            Ok(x) => ensure!(*x.raw() == want_raw, "Uci({}) produced {} but the rules prescribe {}", m.uci(), x.as_fen(), want.fen()),
            Err(e) => fail!("legal move {} refused through make::Uci: {}", m.uci(), e),
        }
        // classes
        let cap = r.is_capture(m);
        let us = r.side;
        let rights_before = r.castle;
        let lost_right = want.castle != rights_before;
        stats.label_if(cap, "capture");
        stats.label_if(m.kind == Kind::Ep, "en_passant");
        stats.label_if(matches!(m.kind, Kind::CastleK | Kind::CastleQ), "castling");
        stats.label_if(matches!(m.kind, Kind::Promo(_)), "promotion");
        stats.label_if(matches!(m.kind, Kind::Promo(_)) && cap, "promotion_capture");
        stats.label_if(m.kind == Kind::Double, "double_step");
        stats.label_if(lost_right && m.man.1 == Pc::K, "king_move_loses_rights");
        stats.label_if(lost_right && m.man.1 == Pc::R, "rook_move_loses_right");
        let them = us.inv();
        let their_lost = want.castle[right_idx(them, true)] != rights_before[right_idx(them, true)]
            || want.castle[right_idx(them, false)] != rights_before[right_idx(them, false)];
        stats.label_if(their_lost, "capture_on_rook_home_loses_right");
        stats.label_if(r.half == 65535 && !(m.man.1 == Pc::P || cap), "clock_at_max");
        stats.label_if(r.full == 65535 && us == Col::B, "move_number_at_max");
        stats.label_if(r.ep.is_some() && m.kind != Kind::Ep, "mark_cleared");
        stats.add("moves_applied", 1);
        if cap || m.kind != Kind::Simple || lost_right || r.half >= 65534 || r.full >= 65534 {
            interesting = true;
        }
    }
    pos_features(r, stats);
    if interesting {
        stats.nontrivial(&(r.rep_key(), r.half, r.full));
    }
    Ok(())
}

fn check_case(case: &Value, stats: &mut Stats) -> CheckResult {
    match case_board(case, stats)? {
        Some((b, r)) => check_position(&b, &r, stats),
        None => Ok(()),
    }
}

pub fn property() -> Property {
    Property {
        id: "C03",
        rule: "Valid positions (12 sources, counters drawn from {0,1,2,49,50,98..101,148..151,65534,65535} and random) x every \
               reference-legal move: Board::make_move, Move::make_raw and make::Uci results are compared field by field (and as FEN text) \
               with the reference model's by-the-rules `apply` (counters saturate: never wrap). Non-trivial = position where some \
               applied move is a capture, special move, loses a castling right, or a counter is at its limit; distinct by \
               (squares, side, rights, mark, counters).",
        assumptions: &["reference apply() follows the property text; 'never wraps' is read as: the counter stays at 65535"],
        subchecks: vec![SubCheck {
            name: "generated_positions",
            driver: Driver::Generated { gen: gen_pos_case, genome_len: 192, quick: 600_000, thorough: 12_000_000 },
            check: check_case,
            configs: Configs::Both,
            required: &[
                "capture", "en_passant", "castling", "promotion", "promotion_capture", "double_step", "king_move_loses_rights",
                "rook_move_loses_right", "capture_on_rook_home_loses_right", "clock_at_max", "move_number_at_max", "mark_cleared",
            ],
            regressions: &[
                r#"{"fen":"7k/8/8/8/8/8/8/K7 w - - 65535 65535","src":"regression_D3"}"#,
                r#"{"fen":"7k/8/8/8/8/8/8/K7 b - - 65535 65535","src":"regression_D3"}"#,
                r#"{"fen":"7k/8/8/8/8/8/8/K7 b - - 65534 65534","src":"regression_D3"}"#,
            ],
            exhaustive: false,
        }],
    }
}
