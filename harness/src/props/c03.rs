//! C03 — applying a move produces the position the rules prescribe.

use crate::common::*;
use crate::conv::*;
use crate::engine::*;
use crate::refmodel::*;
use crate::{ensure, fail};
use owlchess::moves::make::Uci;
use owlchess::{Board, Make};
use serde_json::Value;

pub fn check_position(b: &Board, r: &RefPos, stats: &mut Stats) -> CheckResult {
    let l = r.legal();
    let mut interesting = false;
    for m in &l {
        let mv = mv_to_lib(m).map_err(Failure::new)?;
        let nb = match b.make_move(mv) {
            Ok(x) => x,
            Err(e) => fail!("legal move {} refused by Board::make_move: {}", m.uci(), e),
        };
        let want = r.apply(m);
        let want_raw = raw_from_ref(&want);
        if *nb.raw() != want_raw {
            fail!("after {:?}/{}: library {} but the rules prescribe {}", m.kind, m.uci(), nb.raw().as_fen(), want.fen());
        }
        ensure!(nb.as_fen() == want.fen(), "FEN of the result differs: {} vs reference {}", nb.as_fen(), want.fen());
        // never wraps
        if !(m.man.1 == Pc::P || r.is_capture(m)) {
            ensure!(nb.raw().move_counter >= r.half, "half-move clock wrapped: {} -> {}", r.half, nb.raw().move_counter);
        }
        ensure!(nb.raw().move_number >= r.full, "move number wrapped: {} -> {}", r.full, nb.raw().move_number);
        // the same through make_raw on a clone, and through the UCI wrapper
        let mut c = b.clone();
        match mv.make_raw(&mut c) {
            Ok((m2, _)) => {
                ensure!(m2 == mv, "make_raw returned a different move");
                ensure!(*c.raw() == want_raw, "make_raw result differs from make result");
            }
            Err(e) => fail!("legal move {} refused by make_raw: {}", m.uci(), e),
        }
        match b.make_move(Uci(m.uci())) {
            Ok(x) => ensure!(*x.raw() == want_raw, "Uci({}) produced {} but the rules prescribe {}", m.uci(), x.as_fen(), want.fen()),
            Err(e) => fail!("legal move {} refused through make::Uci: {}", m.uci(), e),
        }
        // classes
        let cap = r.is_capture(m);
        let us = r.side;
        let rights_before = r.castle;
        let lost_right = want.castle != rights_before;
        stats.label_if(cap, "capture");
        stats.label_if(m.kind == Kind::Ep, "en_passant");
        stats.label_if(matches!(m.kind, Kind::CastleK | Kind::CastleQ), "castling");
        stats.label_if(matches!(m.kind, Kind::Promo(_)), "promotion");
        stats.label_if(matches!(m.kind, Kind::Promo(_)) && cap, "promotion_capture");
        stats.label_if(m.kind == Kind::Double, "double_step");
        stats.label_if(lost_right && m.man.1 == Pc::K, "king_move_loses_rights");
        stats.label_if(lost_right && m.man.1 == Pc::R, "rook_move_loses_right");
        let them = us.inv();
        let their_lost = want.castle[right_idx(them, true)] != rights_before[right_idx(them, true)]
            || want.castle[right_idx(them, false)] != rights_before[right_idx(them, false)];
        stats.label_if(their_lost, "capture_on_rook_home_loses_right");
        stats.label_if(r.half == 65535 && !(m.man.1 == Pc::P || cap), "clock_at_max");
        stats.label_if(r.full == 65535 && us == Col::B, "move_number_at_max");
        stats.label_if(r.ep.is_some() && m.kind != Kind::Ep, "mark_cleared");
        stats.add("moves_applied", 1);
        if cap || m.kind != Kind::Simple || lost_right || r.half >= 65534 || r.full >= 65534 {
            interesting = true;
        }
    }
    pos_features(r, stats);
    if interesting {
        stats.nontrivial(&(r.rep_key(), r.half, r.full));
    }
    Ok(())
}

fn check_case(case: &Value, stats: &mut Stats) -> CheckResult {
    match case_board(case, stats)? {
        Some((b, r)) => check_position(&b, &r, stats),
        None => Ok(()),
    }
}

/// Exhaustive family: all four castling rights alive (kings and rooks at home), one extra man of the mover on
/// every square and one enemy man on every other square; every legal move of every such position is applied
/// and compared. Any square pair that wrongly touches a right (stray bits in masks) shows up here.
fn skeleton_driver(ctx: &RunCtx, stats: &mut Stats, rep: &mut Reporter) {
    use serde_json::json;
    let _ = ctx;
    let movers: &[Pc] = &[Pc::R, Pc::B, Pc::N, Pc::Q, Pc::P];
    let victims: &[Pc] = &[Pc::R, Pc::N, Pc::P];
    let mut combos = Vec::new();
    for m in movers {
        for v in victims {
            for side in [Col::W, Col::B] {
                combos.push((*m, *v, side));
            }
        }
    }
    let combos = &combos;
    par_chunks(combos.len() as u64 * 64, stats, rep, |range, st, fails| {
        for i in range {
            let (mp, vp, side) = combos[(i / 64) as usize];
            let s = (i % 64) as u8;
            let base = ref_from_fen("r3k2r/8/8/8/8/8/8/R3K2R w KQkq - 0 1").unwrap();
            if base.b[s as usize].is_some() || (mp == Pc::P && (rank_of(s) == 0 || rank_of(s) == 7)) {
                continue;
            }
            for t in 0..64u8 {
                if t == s || base.b[t as usize].is_some() || (vp == Pc::P && (rank_of(t) == 0 || rank_of(t) == 7)) {
                    continue;
                }
                let mut p = base.clone();
                p.side = side;
                p.b[s as usize] = Some((side, mp));
                p.b[t as usize] = Some((side.inv(), vp));
                if !p.is_valid() {
                    continue;
                }
                let case = json!({"fen": p.fen(), "src": "rights_skeleton"});
                if let Err(f) = guarded("C03", "rights_skeleton_exhaustive", check_case, &case, st) {
                    if fails.len() < 4 {
                        fails.push((case, f));
                    }
                }
            }
        }
    });
}

pub fn property() -> Property {
    Property {
        id: "C03",
        rule: "Valid positions (20 sources, counters drawn from {0,1,2,49,50,98..101,148..151,65534,65535} and random) x every \
               reference-legal move: Board::make_move, Move::make_raw and make::Uci results are compared field by field (and as FEN text) \
               with the reference model's by-the-rules `apply` (counters saturate: never wrap). Non-trivial = position where some \
               applied move is a capture, special move, loses a castling right, or a counter is at its limit; distinct by \
               (squares, side, rights, mark, counters). rights_skeleton_exhaustive: all four rights alive, one extra man of the mover \
               on every square and one enemy man on every other square (5 x 3 piece types, both colours: ~100k positions).",
        assumptions: &["reference apply() follows the property text; 'never wraps' is read as: the counter stays at 65535"],
        subchecks: vec![SubCheck {
            name: "generated_positions",
            driver: Driver::Generated { gen: gen_pos_case, genome_len: 192, quick: 1_800_000, thorough: 14_400_000 },
            check: check_case,
            configs: Configs::Both,
            required: &[
                "capture", "en_passant", "castling", "promotion", "promotion_capture", "double_step", "king_move_loses_rights",
                "rook_move_loses_right", "capture_on_rook_home_loses_right", "clock_at_max", "move_number_at_max", "mark_cleared",
            ],
            regressions: &[
                r#"{"fen":"7k/8/8/8/8/8/8/K7 w - - 65535 65535","src":"regression_D3"}"#,
                r#"{"fen":"7k/8/8/8/8/8/8/K7 b - - 65535 65535","src":"regression_D3"}"#,
                r#"{"fen":"7k/8/8/8/8/8/8/K7 b - - 65534 65534","src":"regression_D3"}"#,
            ],
            exhaustive: false,
        },
        SubCheck {
            name: "rights_skeleton_exhaustive",
            driver: Driver::Custom { run: skeleton_driver },
            check: check_case,
            configs: Configs::ReleaseOnly,
            required: &["capture_on_rook_home_loses_right", "rook_move_loses_right", "castling"],
            regressions: &[],
            exhaustive: true,
        }],
    }
}
