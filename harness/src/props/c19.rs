//! C19 — unchecked internals never go out of bounds on any valid position.

use crate::common::*;
use crate::conv::*;
use crate::engine::*;
use crate::gen::positions::CORPUS;
use crate::gen::splitmix;
use crate::refmodel::*;
use crate::ensure;
use owlchess::movegen::{cell_attackers, legal, semilegal};
use owlchess::moves::Style;
use owlchess::verif as hook;
use owlchess::{Bitboard, Board, Move};
use serde_json::{json, Value};

pub const CAPACITY: usize = 256;

pub use crate::gen::positions::MAX_SEEDS;

fn count_all(b: &Board) -> [usize; 5] {
    let mut v: Vec<Move> = Vec::with_capacity(300);
    let mut out = [0; 5];
    semilegal::gen_all_into(b, &mut v);
    out[0] = v.len();
    v.clear();
    semilegal::gen_capture_into(b, &mut v);
    out[1] = v.len();
    v.clear();
    semilegal::gen_simple_into(b, &mut v);
    out[2] = v.len();
    v.clear();
    semilegal::gen_simple_no_promote_into(b, &mut v);
    out[3] = v.len();
    v.clear();
    semilegal::gen_simple_promote_into(b, &mut v);
    out[4] = v.len();
    out
}

fn count_check(case: &Value, stats: &mut Stats) -> CheckResult {
    // the domain is "every position the validation gate accepts", so the gate alone decides here
    let fen = case["fen"].as_str().unwrap_or("");
    let r = ref_from_fen(fen).map_err(|e| Failure::new(format!("harness: bad case fen: {}", e)))?;
    let b = match Board::try_from(raw_from_ref(&r)) {
        Ok(b) => b,
        Err(_) => {
            stats.skip("gate_rejected");
            return Ok(());
        }
    };
    let c = count_all(&b);
    for (i, n) in c.iter().enumerate() {
        ensure!(*n <= CAPACITY, "semilegal generator #{} produces {} moves (> {}) in {}", i, n, CAPACITY, r.fen());
    }
    stats.label_if(c[0] >= 150, "moves>=150");
    stats.label_if(c[0] >= 200, "moves>=200");
    if c[0] >= 150 {
        stats.nontrivial(&r.rep_key());
    }
    Ok(())
}

/// Directed maximisation (simulated annealing with restarts) of the semilegal move count.
fn maximise_driver(ctx: &RunCtx, stats: &mut Stats, rep: &mut Reporter) {
    let steps: u64 = if ctx.tier == Tier::Quick { 1_500_000 } else { 40_000_000 };
    let seed = ctx.seed;
    let results = std::sync::Mutex::new(Vec::new());
    par_chunks(16, stats, rep, |range, st, fails| {
        for shard in range {
            let mut rng = splitmix(seed ^ 0xC19 ^ shard << 40);
            let mut next = |n: usize| -> usize {
                rng = splitmix(rng);
                (rng % n as u64) as usize
            };
            let start = if (shard as usize) < MAX_SEEDS.len() * 2 { MAX_SEEDS[shard as usize % MAX_SEEDS.len()] } else { CORPUS[9] };
            let mut cur = ref_from_fen(start).unwrap();
            if shard % 2 == 1 {
                cur = crate::gen::positions::flip_colors(&cur);
            }
            // Odd chains search over positions valid by the reference rules; even chains over everything the
            // library's own validation gate accepts ("valid position" = accepted by validation), with no cap on
            // the number of men other than the gate's.
            let gate_only = shard % 4 == 2;
            let eval = |p: &RefPos| -> Option<usize> {
                if !gate_only && (!p.is_valid() || p.normalised() != *p) {
                    return None;
                }
                let b = Board::try_from(raw_from_ref(p)).ok()?;
                let mut v: Vec<Move> = Vec::with_capacity(300);
                semilegal::gen_all_into(&b, &mut v);
                Some(v.len())
            };
            let mut cur_score = eval(&cur).unwrap_or(0);
            let mut best = (cur_score, cur.clone());
            let mover = cur.side;
            for step in 0..steps {
                let mut cand = cur.clone();
                let s = next(64) as u8;
                match next(6) {
                    0 | 1 => {
                        // relocate a man
                        let t = next(64) as u8;
                        if let Some(m) = cand.b[s as usize] {
                            if cand.b[t as usize].is_none() && !(m.1 == Pc::P && (rank_of(t) == 0 || rank_of(t) == 7)) {
                                cand.b[s as usize] = None;
                                cand.b[t as usize] = Some(m);
                            }
                        }
                    }
                    2 => {
                        // retype
                        if let Some((c, pc)) = cand.b[s as usize] {
                            if pc != Pc::K {
                                let np = [Pc::Q, Pc::Q, Pc::R, Pc::B, Pc::N, Pc::P][next(6)];
                                if !(np == Pc::P && (rank_of(s) == 0 || rank_of(s) == 7)) {
                                    cand.b[s as usize] = Some((c, np));
                                }
                            }
                        }
                    }
                    3 => {
                        // add a man (mostly for the mover)
                        if cand.b[s as usize].is_none() {
                            let c = if next(5) == 0 { mover.inv() } else { mover };
                            let np = [Pc::Q, Pc::Q, Pc::Q, Pc::R, Pc::B, Pc::N, Pc::P][next(7)];
                            if (gate_only || cand.count(c) < 16) && !(np == Pc::P && (rank_of(s) == 0 || rank_of(s) == 7)) {
                                cand.b[s as usize] = Some((c, np));
                            }
                        }
                    }
                    4 => {
                        if matches!(cand.b[s as usize], Some((_, pc)) if pc != Pc::K) && next(3) == 0 {
                            cand.b[s as usize] = None;
                        }
                    }
                    _ => {
                        // swap two squares
                        let t = next(64) as u8;
                        let (a, b2) = (cand.b[s as usize], cand.b[t as usize]);
                        let bad = |m: Option<Man>, q: u8| matches!(m, Some((_, Pc::P))) && (rank_of(q) == 0 || rank_of(q) == 7);
                        if !bad(a, t) && !bad(b2, s) {
                            cand.b[s as usize] = b2;
                            cand.b[t as usize] = a;
                        }
                    }
                }
                if cand == cur {
                    continue;
                }
                if let Some(sc) = eval(&cand) {
                    st.count(1);
                    if sc > CAPACITY {
                        let case = json!({"fen": cand.fen(), "src": "annealing"});
                        fails.push((case, Failure::new(format!("{} semilegal moves exceed the move list capacity {}", sc, CAPACITY))));
                        return;
                    }
                    if sc >= 150 {
                        st.nontrivial(&cand.rep_key());
                    }
                    // temperature schedule: accept small losses early
                    let temp = 3.0 * (1.0 - step as f64 / steps as f64) + 0.05;
                    let delta = sc as f64 - cur_score as f64;
                    let u = (next(1_000_000) as f64 + 1.0) / 1_000_001.0;
                    if delta >= 0.0 || u < (delta / temp).exp() {
                        cur = cand;
                        cur_score = sc;
                        if sc > best.0 {
                            best = (sc, cur.clone());
                        }
                    }
                }
                // restart from the best now and then
                if step % 40_000 == 39_999 {
                    cur = best.1.clone();
                    cur_score = best.0;
                }
            }
            results.lock().unwrap().push((best.0, best.1.fen()));
        }
    });
    let mut r = results.into_inner().unwrap();
    r.sort();
    r.reverse();
    if let Some((n, fen)) = r.first() {
        stats.add("best_semilegal_move_count", *n as u64);
        stats.sample(json!({"fen": fen, "semilegal_moves": n, "src": "annealing_best"}));
        stats.label_if(*n >= 200, "moves>=200");
    }
    for (n, fen) in r.iter().skip(1).take(3) {
        stats.sample(json!({"fen": fen, "semilegal_moves": n, "src": "annealing"}));
    }
}

/// Executes every generator and query on the position stream; in the `checked` build an out-of-range
/// get_unchecked / push_unchecked / unreachable_unchecked / pointer offset aborts or panics.
fn exercise_check(case: &Value, stats: &mut Stats) -> CheckResult {
    let (b, r) = match case_board(case, stats)? {
        Some(x) => x,
        None => return Ok(()),
    };
    let c = count_all(&b);
    ensure!(c[0] <= CAPACITY, "{} semilegal moves exceed the capacity", c[0]);
    let sl = semilegal::gen_all(&b);
    ensure!(sl.len() == c[0], "fixed-capacity list has {} moves, Vec sink {}", sl.len(), c[0]);
    let _ = (semilegal::gen_capture(&b), semilegal::gen_simple(&b), semilegal::gen_simple_no_promote(&b), semilegal::gen_simple_promote(&b));
    let l = legal::gen_all(&b);
    let _ = (legal::gen_capture(&b), legal::gen_simple(&b), legal::gen_simple_no_promote(&b), legal::gen_simple_promote(&b));
    let _ = (b.has_legal_moves(), b.is_check(), b.checkers(), b.calc_outcome(), b.zobrist_hash(), b.raw().zobrist_hash());
    for s in 0..64u8 {
        let _ = cell_attackers(&b, sq_to_lib(s), owlchess::Color::White);
        let _ = cell_attackers(&b, sq_to_lib(s), owlchess::Color::Black);
    }
    // text output of the position (longest-text positions are among the sources): no out-of-range write, and the right text
    let text = b.as_fen();
    ensure!(text == r.fen() && b.to_string() == text && b.raw().to_string() == text, "FEN text {:?} differs from the reference text {:?}", text, r.fen());
    stats.label_if(text.len() >= 85, "fen_text>=85_bytes");
    let _ = (format!("{:?}", b), b.pretty(owlchess::board::PrettyStyle::Ascii).to_string(), b.pretty(owlchess::board::PrettyStyle::Utf8).to_string());
    let mut cur = b.clone();
    for m in sl.iter() {
        let _ = (m.to_string(), format!("{:?}", m));
        let _ = m.is_semilegal(&b);
        let u = unsafe { owlchess::moves::make_move_unchecked(&mut cur, *m) };
        let _ = cur.is_opponent_king_attacked();
        unsafe { owlchess::moves::unmake_move_unchecked(&mut cur, *m, u) };
    }
    // every two-file pawn-capture text, read against the position (candidate lists of the abbreviated-capture resolver)
    for a in b'a'..=b'h' {
        for d in [-1i8, 1] {
            let t = a as i8 + d;
            if (b'a' as i8..=b'h' as i8).contains(&t) {
                let text = format!("{}{}", a as char, t as u8 as char);
                let _ = Move::from_san(&text, &b);
            }
        }
    }
    for m in l.iter() {
        // all three output styles, written to a String and through width / precision flags
        for st in [Style::San, Style::SanUtf8, Style::Uci] {
            if let Ok(x) = m.styled(&b, st) {
                let _ = (x.to_string(), format!("{:>12}|{:<3}|{:.2}", x, x, x));
            }
        }
        if let Ok(x) = m.san(&b) {
            let _ = (x.to_string(), x.styled(owlchess::moves::san::Style::Utf8).to_string(), format!("{:?}", x));
        }
        let _ = m.styled(&b, Style::San).map(|s| s.to_string());
        let nb = b.make_move(*m).map_err(|e| Failure::new(format!("legal move refused: {}", e)))?;
        let _ = (nb.has_legal_moves(), nb.is_check());
    }
    stats.label_if(c[0] >= 150, "moves>=150");
    pos_features(&r, stats);
    if c[0] >= 100 {
        stats.nontrivial(&r.rep_key());
    }
    Ok(())
}

fn gen_heavy_case(cur: &mut crate::gen::Cursor) -> Value {
    // half of the cases come from the heavy sources (many queens / dense / seeds with mutations)
    use crate::gen::positions::*;
    let sel = cur.below(5);
    let (p, src) = match sel {
        4 => gen_position_from(cur, 18),
        0 => gen_position_from(cur, 9),
        1 => gen_position_from(cur, 1),
        2 => {
            let mut p = ref_from_fen(MAX_SEEDS[cur.below(MAX_SEEDS.len())]).unwrap();
            if cur.bool() {
                p = flip_colors(&p);
            }
            let n = cur.below(4);
            for _ in 0..n {
                let s = cur.below(64);
                let t = cur.below(64);
                if let Some(m) = p.b[s] {
                    if p.b[t].is_none() && m.1 != Pc::K && !(m.1 == Pc::P && (t / 8 == 0 || t / 8 == 7)) {
                        p.b[s] = None;
                        p.b[t] = Some(m);
                    }
                }
            }
            repair(cur, &mut p, false);
            (p, "max_seed_mut")
        }
        _ => gen_position(cur),
    };
    crate::common::with_twin(cur, json!({"fen": p.fen(), "src": src}))
}

/// Appending to a caller-supplied fixed-capacity list: once the 256 slots are used up the safe sink must refuse
/// (panic) instead of writing past the buffer. The list sits in front of padding inside a heap allocation so that a
/// stray write cannot hurt the harness before it is noticed.
fn append_check(case: &Value, stats: &mut Stats) -> CheckResult {
    use owlchess::MoveList;
    let (b, r) = match case_board(case, stats)? {
        Some(x) => x,
        None => return Ok(()),
    };
    let per = count_all(&b)[0];
    if per == 0 {
        return Ok(());
    }
    #[repr(C)]
    struct Guarded(MoveList, [u64; 512]); // repr(C): the padding really follows the list in memory
    let mut boxed: Box<Guarded> = Box::new(Guarded(MoveList::new(), [0x5a5a_5a5a_5a5a_5a5a; 512]));
    let rounds = CAPACITY / per + 1;
    let mut panicked = false;
    for _ in 0..rounds {
        let res = std::panic::catch_unwind(std::panic::AssertUnwindSafe(|| semilegal::gen_all_into(&b, &mut boxed.0)));
        if res.is_err() {
            panicked = true;
            break;
        }
    }
    let len = boxed.0.len();
    ensure!(len <= CAPACITY, "a 256-entry MoveList holds {} moves after appending {} x {} moves", len, rounds, per);
    ensure!(boxed.1.iter().all(|x| *x == 0x5a5a_5a5a_5a5a_5a5a), "memory behind the MoveList was overwritten");
    ensure!(panicked, "appending {} x {} moves to a 256-entry MoveList neither refused nor grew", rounds, per);
    // what was written before the refusal is a prefix of repeated generator output
    let one: Vec<Move> = semilegal::gen_all(&b).iter().copied().collect();
    for (i, m) in boxed.0.iter().enumerate() {
        ensure!(*m == one[i % one.len()], "entry {} of the appended list is corrupted", i);
    }
    stats.label("append_refused_at_capacity");
    stats.nontrivial(&r.rep_key());
    Ok(())
}

// ------------------------------------------------------------------------------------------
// magic index bounds (exhaustive over the library's own masks)

fn magic_check(case: &Value, stats: &mut Stats) -> CheckResult {
    let s = case["sq"].as_u64().unwrap_or(0) as u8 % 64;
    let rook = case["piece"].as_str() == Some("rook");
    let c = sq_to_lib(s);
    let (_, offset0, len, mask, post) = hook::magic_probe(rook, c, Bitboard::EMPTY);
    // Whatever mask the library uses (the property does not prescribe it), every subset of it must index inside the
    // table; masks wider than 16 bits are sampled instead of enumerated.
    let _ = post;
    let bits: Vec<u32> = (0..64).filter(|i| mask.as_raw() >> i & 1 == 1).collect();
    let mut max_idx = 0usize;
    let exhaustive = bits.len() <= 16;
    let total: u64 = if exhaustive { 1u64 << bits.len() } else { 1 << 16 };
    let mut rng = crate::gen::splitmix(s as u64 ^ 0xC19);
    for k in 0..total {
        let sub = if exhaustive {
            k
        } else {
            rng = crate::gen::splitmix(rng);
            rng
        };
        let mut occ = 0u64;
        for (j, b) in bits.iter().enumerate() {
            if sub >> j & 1 == 1 {
                occ |= 1u64 << b;
            }
        }
        // irrelevant bits must not influence the index
        for o in [occ, occ | !mask.as_raw()] {
            let (idx, offset, len2, _, _) = hook::magic_probe(rook, c, Bitboard::from_raw(o));
            ensure!(offset == offset0 && len2 == len, "offset/len not constant");
            ensure!(offset + idx < len, "lookup index out of range: offset {} + index {} >= table length {} (square {}, occupancy {:#x})", offset, idx, len, sq_name(s), o);
            max_idx = max_idx.max(idx);
        }
        stats.count(2);
    }
    stats.add("lookups_probed", 2 * total);
    stats.nontrivial(&(s, rook));
    let _ = max_idx;
    Ok(())
}

fn magic_driver(_ctx: &RunCtx, stats: &mut Stats, rep: &mut Reporter) {
    par_chunks(128, stats, rep, |range, st, fails| {
        for i in range {
            let case = json!({"piece": if i >= 64 { "rook" } else { "bishop" }, "sq": i % 64});
            if let Err(f) = guarded("C19", "magic_index_bounds", magic_check, &case, st) {
                fails.push((case, f));
            }
        }
    });
}

pub fn property() -> Property {
    Property {
        id: "C19",
        rule: "(a) maximise: simulated annealing with restarts (16 deterministic chains seeded from VERIF_SEED, relocate/retype/add/remove/swap \
               men) over valid positions (12 chains: valid by the reference rules; 4 chains: whatever the library's own gate accepts), maximising semilegal::gen_all_into(Vec) (safe sink, so an overflow is counted, not executed); \
               oracle: count <= 256 for all five generators. (b) exercise: valid positions (20 sources + heavy sources: many queens, dense, \
               mutated maximal positions, longest-FEN positions) run through every generator and query (fixed-capacity lists, attack queries for 64 squares, \
               make/unmake of every semilegal move, all three text styles of every legal move (also through width / precision flags), all two-file capture texts read against the position, FEN / Debug / pretty text of the position, which must equal the reference text, Display of every move); in the `checked` configuration (debug assertions + \
               overflow checks) an out-of-range get_unchecked / push_unchecked / unreachable_unchecked / pointer offset panics or aborts \
               and is attributed to the case. (b') append_to_full_list: the *_into generators \
               appending to a caller-supplied 256-entry MoveList until it is full must refuse (panic) rather than write past it. \
               (c) magic_index_bounds (exhaustive): for every square and every subset of the library's \
               own mask, with and without all irrelevant bits: offset + index < table length, via the read-only hook. Non-trivial = position with >= 150 (maximise) / >= 100 (exercise) semilegal moves; lookup family.",
        assumptions: &[
            "'no valid position exceeds 256 semilegal moves' is attacked by search only: a plateau below the limit is evidence, not proof",
            "std's unsafe-precondition checks and arrayvec's debug assertions are compiled in with debug-assertions = true",
        ],
        subchecks: vec![
            SubCheck {
                name: "maximise_move_count",
                driver: Driver::Custom { run: maximise_driver },
                check: count_check,
                configs: Configs::ReleaseOnly,
                required: &["moves>=200"],
                regressions: &[
                    r#"{"fen":"R6R/3Q4/1Q4Q1/4Q3/2Q4Q/Q4Q2/pp1Q4/kBNN1KB1 w - - 0 1","src":"known_max_218"}"#,
                ],
                exhaustive: false,
            },
            SubCheck {
                name: "exercise_all_queries",
                driver: Driver::Generated { gen: gen_heavy_case, genome_len: 192, quick: 900_000, thorough: 7_200_000 },
                check: exercise_check,
                configs: Configs::Both,
                required: &["moves>=150", "in_check", "ep_mark", "castling_right", "fen_text>=85_bytes"],
                regressions: &[],
                exhaustive: false,
            },
            SubCheck {
                name: "append_to_full_list",
                driver: Driver::Generated { gen: gen_heavy_case, genome_len: 192, quick: 180_000, thorough: 1_500_000 },
                check: append_check,
                configs: Configs::Both,
                required: &["append_refused_at_capacity"],
                regressions: &[],
                exhaustive: false,
            },
            SubCheck {
                name: "magic_index_bounds",
                driver: Driver::Custom { run: magic_driver },
                check: magic_check,
                configs: Configs::Both,
                required: &[],
                regressions: &[],
                exhaustive: true,
            },
        ],
    }
}

