//! C07 — the outcome of a position is classified exactly.

use crate::common::*;
use crate::conv::*;
use crate::engine::*;
use crate::refmodel::*;
use crate::fail;
use owlchess::types::{DrawReason, Outcome, WinReason};
use owlchess::Board;
use serde_json::{json, Value};

pub fn check_outcome(b: &Board, r: &RefPos) -> Result<RefOutcome, Failure> {
    let want = r.outcome();
    let got = b.calc_outcome();
    let ok = match (want, got) {
        (RefOutcome::Checkmate { winner }, Some(Outcome::Win { side, reason: WinReason::Checkmate })) => side == col_to_lib(winner),
        (RefOutcome::Stalemate, Some(Outcome::Draw(DrawReason::Stalemate))) => true,
        (RefOutcome::Mandatory { insufficient, .. }, Some(Outcome::Draw(DrawReason::InsufficientMaterial))) => insufficient,
        (RefOutcome::Mandatory { moves75, .. }, Some(Outcome::Draw(DrawReason::Moves75))) => moves75,
        (RefOutcome::Claimable, Some(Outcome::Draw(DrawReason::Moves50))) => true,
        (RefOutcome::None, None) => true,
        _ => false,
    };
    if !ok {
        return Err(Failure::new(format!("calc_outcome = {:?} but the rules give {:?}", got, want)));
    }
    // calc_draw_simple ignores the forced class
    let insuf = r.insufficient_material();
    let d = b.calc_draw_simple();
    let ok = match d {
        Some(DrawReason::InsufficientMaterial) => insuf,
        Some(DrawReason::Moves75) => r.half >= 150,
        Some(DrawReason::Moves50) => !insuf && r.half >= 100 && r.half < 150,
        None => !insuf && r.half < 100,
        _ => false,
    };
    if !ok {
        return Err(Failure::new(format!("calc_draw_simple = {:?} with insufficient material = {}, clock = {}", d, insuf, r.half)));
    }
    let has = r.has_legal();
    if b.has_legal_moves() != has {
        return Err(Failure::new(format!("has_legal_moves = {} but the legal move set is {}", b.has_legal_moves(), if has { "non-empty" } else { "empty" })));
    }
    if b.is_check() != r.in_check(r.side) {
        return Err(Failure::new(format!("is_check = {} but reference = {}", b.is_check(), r.in_check(r.side))));
    }
    Ok(want)
}

pub fn check_position(b: &Board, r: &RefPos, stats: &mut Stats) -> CheckResult {
    let want = check_outcome(b, r)?;
    // the same position with the clock moved to each boundary
    for h in [0u16, 99, 100, 149, 150, 65535] {
        let mut r2 = r.clone();
        r2.half = h;
        let b2 = match Board::try_from(raw_from_ref(&r2)) {
            Ok(x) => x,
            Err(e) => fail!("same position with clock {} refused: {}", h, e),
        };
        check_outcome(&b2, &r2)?;
    }
    pos_features(r, stats);
    let others: Vec<(Pc, Sq)> = (0..64u8).filter_map(|s| r.b[s as usize].map(|m| (m.1, s))).filter(|(p, _)| *p != Pc::K).collect();
    let near_material = others.len() <= 4 && others.iter().all(|(p, _)| matches!(p, Pc::N | Pc::B));
    match want {
        RefOutcome::Checkmate { .. } => stats.label("checkmate"),
        RefOutcome::Stalemate => stats.label("stalemate"),
        RefOutcome::Mandatory { insufficient, moves75 } => {
            stats.label_if(insufficient, "insufficient_material");
            stats.label_if(moves75, "moves75");
        }
        RefOutcome::Claimable => stats.label("moves50"),
        RefOutcome::None => stats.label("no_outcome"),
    }
    let only_ep_illegal = !r.has_legal() && r.pseudo_legal().iter().any(|m| m.kind == Kind::Ep);
    stats.label_if(only_ep_illegal, "no_legal_but_illegal_ep");
    let l = r.legal();
    stats.label_if(!l.is_empty() && l.iter().all(|m| m.kind == Kind::Ep), "only_legal_moves_are_ep");
    stats.label_if(near_material && !r.insufficient_material(), "material_near_miss");
    if want != RefOutcome::None || matches!(r.half, 99 | 149) || near_material {
        stats.nontrivial(&(r.rep_key(), r.half));
    }
    Ok(())
}

fn check_case(case: &Value, stats: &mut Stats) -> CheckResult {
    match case_board(case, stats)? {
        Some((b, r)) => check_position(&b, &r, stats),
        None => Ok(()),
    }
}

/// All multisets of up to 4 extra men (5 types x 2 colours x light/dark square), kings in two
/// placements, both sides to move, clocks around the boundaries.
fn material_driver(_ctx: &RunCtx, stats: &mut Stats, rep: &mut Reporter) {
    let light: Vec<Sq> = (16..48u8).filter(|&s| is_light(s) && (1..7).contains(&file_of(s))).collect();
    let dark: Vec<Sq> = (16..48u8).filter(|&s| !is_light(s) && (1..7).contains(&file_of(s))).collect();
    let mut tokens: Vec<(Man, bool)> = Vec::new();
    for c in [Col::W, Col::B] {
        for p in [Pc::N, Pc::B, Pc::R, Pc::Q, Pc::P] {
            for l in [true, false] {
                tokens.push(((c, p), l));
            }
        }
    }
    // multisets as non-decreasing index vectors
    let mut sets: Vec<Vec<usize>> = vec![vec![]];
    fn rec(start: usize, n: usize, cur: &mut Vec<usize>, left: usize, out: &mut Vec<Vec<usize>>) {
        if left == 0 {
            out.push(cur.clone());
            return;
        }
        for i in start..n {
            cur.push(i);
            rec(i, n, cur, left - 1, out);
            cur.pop();
        }
    }
    for k in 1..=4 {
        rec(0, tokens.len(), &mut vec![], k, &mut sets);
    }
    let (sets, tokens, light, dark) = (&sets, &tokens, &light, &dark);
    par_chunks(sets.len() as u64, stats, rep, |range, st, fails| {
        for i in range {
            let set = &sets[i as usize];
            for (wk, bk) in [(0u8, 63u8), (4, 60)] {
                let mut p = RefPos::empty();
                p.b[wk as usize] = Some((Col::W, Pc::K));
                p.b[bk as usize] = Some((Col::B, Pc::K));
                let (mut li, mut di) = (0, 0);
                for &t in set {
                    let (m, l) = tokens[t];
                    let s = if l {
                        li += 1;
                        light[(li * 3) % light.len()]
                    } else {
                        di += 1;
                        dark[(di * 3) % dark.len()]
                    };
                    p.b[s as usize] = Some(m);
                }
                for side in [Col::W, Col::B] {
                    p.side = side;
                    if !p.is_valid() {
                        continue;
                    }
                    for h in [0u16, 99, 100, 149, 150] {
                        p.half = h;
                        let case = json!({"fen": p.fen(), "src": "material_enumerated"});
                        if let Err(f) = guarded("C07", "material_exhaustive", check_case_single, &case, st) {
                            if fails.len() < 4 {
                                fails.push((case, f));
                            }
                        }
                    }
                }
            }
        }
    });
}

/// Every placement of the two kings plus one more man, both sides to move (quick: minor pieces only, where
/// stalemate and insufficient material coincide; thorough: all five types).
fn three_men_driver(ctx: &RunCtx, stats: &mut Stats, rep: &mut Reporter) {
    let _ = ctx;
    let types: &[Pc] = &[Pc::N, Pc::B, Pc::R, Pc::Q, Pc::P];
    par_chunks(64 * 64, stats, rep, |range, st, fails| {
        for i in range {
            let (wk, bk) = ((i / 64) as u8, (i % 64) as u8);
            if wk == bk || ((file_of(wk) - file_of(bk)).abs() <= 1 && (rank_of(wk) - rank_of(bk)).abs() <= 1) {
                continue;
            }
            for &pc in types {
                for c in [Col::W, Col::B] {
                    for s in 0..64u8 {
                        if s == wk || s == bk || (pc == Pc::P && (rank_of(s) == 0 || rank_of(s) == 7)) {
                            continue;
                        }
                        for side in [Col::W, Col::B] {
                            let mut p = RefPos::empty();
                            p.b[wk as usize] = Some((Col::W, Pc::K));
                            p.b[bk as usize] = Some((Col::B, Pc::K));
                            p.b[s as usize] = Some((c, pc));
                            p.side = side;
                            if !p.is_valid() {
                                continue;
                            }
                            let b = match Board::try_from(raw_from_ref(&p)) {
                                Ok(b) => b,
                                Err(_) => {
                                    st.skip("gate_rejected_reference_valid_position");
                                    continue;
                                }
                            };
                            st.count(1);
                            match check_outcome(&b, &p) {
                                Ok(o) => {
                                    if o == RefOutcome::Stalemate && p.insufficient_material() {
                                        st.label("stalemate_with_insufficient_material");
                                    }
                                    if !matches!(o, RefOutcome::None) {
                                        st.nontrivial(&p.rep_key());
                                    }
                                }
                                Err(f) => {
                                    if fails.len() < 4 {
                                        fails.push((json!({"fen": p.fen(), "src": "three_men"}), f));
                                    }
                                }
                            }
                        }
                    }
                }
            }
        }
    });
    stats.sample(json!({"fen": "k7/8/1K1B4/8/8/8/8/8 b - - 0 1", "src": "three_men"}));
}

fn check_case_single(case: &Value, stats: &mut Stats) -> CheckResult {
    match case_board(case, stats)? {
        Some((b, r)) => {
            let want = check_outcome(&b, &r)?;
            match want {
                RefOutcome::Mandatory { insufficient: true, .. } => stats.label("insufficient_material"),
                RefOutcome::Mandatory { .. } => stats.label("moves75"),
                RefOutcome::Claimable => stats.label("moves50"),
                RefOutcome::None => stats.label("no_outcome"),
                _ => stats.label("forced"),
            }
            stats.nontrivial(&(r.rep_key(), r.half));
            Ok(())
        }
        None => Ok(()),
    }
}

fn pair_check(case: &Value, stats: &mut Stats) -> CheckResult {
    run_pair(case, stats, check_case)
}

fn pair_driver(ctx: &RunCtx, stats: &mut Stats, rep: &mut Reporter) {
    half_key_driver("C07", pair_check, ctx, stats, rep)
}

pub fn property() -> Property {
    Property {
        id: "C07",
        rule: "Valid positions (20 sources incl. material, mate and en-passant families), each additionally re-evaluated with the half-move \
               clock set to 0/99/100/149/150/65535; plus an exhaustive enumeration of all multisets of <= 4 extra men (5 types x 2 colours \
               x light/dark square) with two king placements, both sides to move and 5 clock values; and every 3-man position \
               (all five types, ~4M positions), where stalemate and insufficient material coincide. Oracle: reference classifier \
               (no legal move: checkmate/stalemate; else mandatory if insufficient material by (file+rank) parity or clock >= 150; else \
               claimable if clock >= 100): calc_outcome must be in the right class with a reason that applies; calc_draw_simple likewise; \
               has_legal_moves <=> reference legal set non-empty; is_check. Non-trivial = outcome present, or clock 99/149, or only \
               minor pieces (<= 4) left; distinct by (squares, side, rights, mark, clock).",
        assumptions: &["reference legal move generator validated by published perft", "square colour computed from coordinates, not from masks"],
        subchecks: vec![
            SubCheck {
                name: "generated_positions",
                driver: Driver::Generated { gen: gen_pos_case, genome_len: 192, quick: 2_400_000, thorough: 19_200_000 },
                check: check_case,
                configs: Configs::ReleaseOnly,
                required: &["checkmate", "stalemate", "insufficient_material", "moves75", "moves50", "no_outcome", "material_near_miss", "no_legal_but_illegal_ep", "only_legal_moves_are_ep"],
                regressions: &[
                    r#"{"fen":"8/8/8/8/k2pP2R/8/8/7K b - e3 0 1","src":"regression_D1"}"#,
                    r#"{"fen":"7k/8/8/K2Pp2r/8/8/8/8 w - e6 0 1","src":"regression_D1"}"#,
                ],
                exhaustive: false,
            },
            SubCheck {
                name: "three_men_exhaustive",
                driver: Driver::Custom { run: three_men_driver },
                check: check_case_single,
                configs: Configs::ReleaseOnly,
                required: &["stalemate_with_insufficient_material"],
                regressions: &[],
                exhaustive: true,
            },
            SubCheck {
                name: "material_exhaustive",
                driver: Driver::Custom { run: material_driver },
                check: check_case_single,
                configs: Configs::ReleaseOnly,
                required: &["insufficient_material", "moves75", "moves50", "no_outcome"],
                regressions: &[],
                exhaustive: true,
            },
            SubCheck {
                name: "half_key_pairs",
                driver: Driver::Custom { run: pair_driver },
                check: pair_check,
                configs: Configs::ReleaseOnly,
                required: &["equal_low_half_of_the_key", "equal_high_half_of_the_key"],
                regressions: &[],
                exhaustive: false,
            },
        ],
    }
}
