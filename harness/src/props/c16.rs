//! C16 — attack and check queries agree with the rules on every position.

use crate::common::*;
use crate::conv::*;
use crate::engine::*;
use crate::refmodel::*;
use crate::ensure;
use owlchess::movegen::{cell_attackers, is_cell_attacked};
use owlchess::Board;
use serde_json::Value;

pub fn check_position(b: &Board, r: &RefPos, stats: &mut Stats) -> CheckResult {
    let mut interesting = false;
    for s in 0..64u8 {
        for c in [Col::W, Col::B] {
            let want = r.attackers(s, c);
            let got_any = is_cell_attacked(b, sq_to_lib(s), col_to_lib(c));
            ensure!(got_any == !want.is_empty(), "is_cell_attacked({}, {:?}) = {} but reference attackers = {:?}", sq_name(s), c, got_any,
                want.iter().map(|x| sq_name(*x)).collect::<Vec<_>>());
            let mut got: Vec<Sq> = cell_attackers(b, sq_to_lib(s), col_to_lib(c)).into_iter().map(sq_from_lib).collect();
            got.sort();
            ensure!(got == want, "cell_attackers({}, {:?}) = {:?} but reference = {:?}", sq_name(s), c,
                got.iter().map(|x| sq_name(*x)).collect::<Vec<_>>(), want.iter().map(|x| sq_name(*x)).collect::<Vec<_>>());
            for &a in &want {
                match r.b[a as usize] {
                    Some((_, Pc::P)) => {
                        stats.label("pawn_attacker");
                        interesting = true;
                    }
                    Some((_, Pc::B | Pc::R | Pc::Q)) => {
                        if (file_of(a) - file_of(s)).abs().max((rank_of(a) - rank_of(s)).abs()) > 1 {
                            stats.label("distant_line_attacker");
                            interesting = true;
                        }
                    }
                    _ => {}
                }
            }
        }
    }
    let k = r.king_sq(r.side).unwrap();
    let want = r.attackers(k, r.side.inv());
    ensure!(b.is_check() == !want.is_empty(), "is_check = {} but reference checkers = {:?}", b.is_check(), want);
    let mut got: Vec<Sq> = b.checkers().into_iter().map(sq_from_lib).collect();
    got.sort();
    ensure!(got == want, "checkers = {:?} but reference = {:?}", got, want);
    ensure!(!b.is_opponent_king_attacked(), "is_opponent_king_attacked is true on a valid position");
    ensure!(sq_from_lib(b.king_pos(col_to_lib(r.side))) == k, "king_pos disagrees");
    pos_features(r, stats);
    stats.label_if(want.len() >= 2, "double_check");
    if interesting {
        stats.nontrivial(&r.b);
    }
    Ok(())
}

fn check_case(case: &Value, stats: &mut Stats) -> CheckResult {
    match case_board(case, stats)? {
        Some((b, r)) => check_position(&b, &r, stats),
        None => Ok(()),
    }
}

fn pair_check(case: &Value, stats: &mut Stats) -> CheckResult {
    run_pair(case, stats, check_case)
}

fn pair_driver(ctx: &RunCtx, stats: &mut Stats, rep: &mut Reporter) {
    half_key_driver("C16", pair_check, ctx, stats, rep)
}

pub fn property() -> Property {
    Property {
        id: "C16",
        rule: "Valid positions (20 sources) x 64 squares x 2 colours: is_cell_attacked and cell_attackers against ray-walking / offset \
               geometry of the reference model (target contents ignored); is_check and checkers for the king of the side to move. \
               Non-trivial = position in which some square has a pawn attacker or a line-piece attacker at distance >= 2; distinct by squares.",
        assumptions: &["reference attack geometry is correct (used by the perft-validated reference move generator)"],
        subchecks: vec![SubCheck {
            name: "generated_positions",
            driver: Driver::Generated { gen: gen_pos_case, genome_len: 192, quick: 2_000_000, thorough: 16_000_000 },
            check: check_case,
            configs: Configs::Both,
            required: &["in_check", "double_check", "pawn_attacker", "distant_line_attacker"],
            regressions: &[],
            exhaustive: false,
        },
            SubCheck {
                name: "half_key_pairs",
                driver: Driver::Custom { run: pair_driver },
                check: pair_check,
                configs: Configs::ReleaseOnly,
                required: &["equal_low_half_of_the_key", "equal_high_half_of_the_key"],
                regressions: &[],
                exhaustive: false,
            },
        ],
    }
}
