//! C08 — FEN formatting and FEN parsing are mutually inverse.

use crate::common::*;
use crate::conv::*;
use crate::engine::*;
use crate::gen::positions::gen_position;
use crate::gen::raw::*;
use crate::gen::strings::*;
use crate::gen::Cursor;
use crate::refmodel::*;
use crate::{ensure, fail};
use owlchess::{Board, RawBoard};
use serde_json::{json, Value};
use std::str::FromStr;

pub fn check_position(b: &Board, r: &RefPos, stats: &mut Stats, count: bool) -> CheckResult {
    let text = b.as_fen();
    ensure!(text == b.to_string() && text == b.raw().as_fen() && text == b.raw().to_string(), "as_fen / Display of Board and RawBoard disagree");
    // canonical grammar + independent reader
    match ref_from_fen(&text) {
        Ok(p) => ensure!(p == *r, "independent reader interprets {:?} as {} instead of {}", text, p.fen(), r.fen()),
        Err(e) => fail!("output {:?} is not a canonical six-field FEN record: {}", text, e),
    }
    ensure!(text == r.fen(), "FEN text {:?} differs from the canonical text {:?}", text, r.fen());
    match Board::from_fen(&text) {
        Ok(b2) => {
            ensure!(b2 == *b, "parse(format(b)) != b: {} vs {}", b2.as_fen(), text);
            if snapshot(&b2) != snapshot(b) {
                fail!("parse(format(b)) differs in derived state: {}", snap_diff(&snapshot(&b2), &snapshot(b)));
            }
        }
        Err(e) => fail!("own output {:?} refused by Board::from_fen: {}", text, e),
    }
    match Board::from_str(&text) {
        Ok(b2) => ensure!(b2 == *b, "Board::from_str differs from from_fen"),
        Err(e) => fail!("own output refused by from_str: {}", e),
    }
    pos_features(r, stats);
    let board_part = text.split(' ').next().unwrap();
    let empty_rank = board_part.split('/').any(|x| x == "8");
    let full_rank = board_part.split('/').any(|x| x.len() == 8 && !x.bytes().any(|c| c.is_ascii_digit()));
    stats.label_if(empty_rank, "empty_rank");
    stats.label_if(full_rank, "full_rank");
    stats.label_if(r.half >= 10 || r.full >= 10, "multi_digit_counter");
    stats.label_if(r.ep.map_or(false, |s| file_of(s) == 0), "mark_on_a_file");
    stats.label_if(r.ep.map_or(false, |s| file_of(s) == 7), "mark_on_h_file");
    if count && (r.ep.is_some() || empty_rank || full_rank || r.half >= 10 || r.full >= 10) {
        stats.nontrivial(&(r.rep_key(), r.half, r.full));
    }
    Ok(())
}

fn gen_case(cur: &mut Cursor) -> Value {
    let mut case = gen_pos_case(cur);
    case["kids"] = json!([cur.u16(), cur.u16()]);
    case
}

/// A move that changes more than two squares or a non-placement field.
fn special(p: &RefPos, m: &RefMove) -> bool {
    !matches!(m.kind, Kind::Simple) || m.man.1 == Pc::K || m.man.1 == Pc::R || matches!(p.b[m.to as usize], Some((_, Pc::R)))
}

fn check_case(case: &Value, stats: &mut Stats) -> CheckResult {
    let (b, r) = match case_board(case, stats)? {
        Some(x) => x,
        None => return Ok(()),
    };
    check_position(&b, &r, stats, true)?;
    // positions that only make_move builds (not the validation gate): one special and one arbitrary successor
    let legal = r.legal();
    let kids: Vec<usize> = case["kids"].as_array().map(|a| a.iter().map(|x| x.as_u64().unwrap_or(0) as usize).collect()).unwrap_or_default();
    let specials: Vec<RefMove> = legal.iter().filter(|m| special(&r, m)).cloned().collect();
    for (i, pool) in [&specials, &legal].into_iter().enumerate() {
        if pool.is_empty() || i >= kids.len() {
            continue;
        }
        let m = pool[(kids[i] * pool.len()) >> 16];
        let lm = mv_to_lib(&m).map_err(|e| Failure::new(format!("harness: {}", e)))?;
        let child = match b.make_move(lm) {
            Ok(c) => c,
            Err(e) => fail!("make_move refuses the legal move {} in {}: {}", mv_desc(&lm), r.fen(), e),
        };
        let rc = r.apply(&m);
        stats.label("successor_position");
        stats.label_if(matches!(m.kind, Kind::Promo(_)), "successor_by_promotion");
        stats.label_if(m.man.1 == Pc::K && r.is_capture(&m), "successor_by_king_capture");
        if let Err(f) = check_position(&child, &rc, stats, false) {
            return Err(Failure::new(format!("after {} from {}: {}", mv_desc(&lm), r.fen(), f.msg)));
        }
    }
    // the successor by the null move (documented: flips the side to move): its text must be canonical and read back as
    // the same board; what it does to the counters is not specified anywhere, so only the round trip is demanded
    if !r.in_check(r.side) && kids.first().map_or(false, |k| k % 4 == 0) {
        let mut nb = b.clone();
        let _ = unsafe { owlchess::moves::make_move_unchecked(&mut nb, owlchess::Move::NULL) };
        let text = nb.as_fen();
        if let Err(e) = ref_from_fen(&text) {
            fail!("after the null move from {}: output {:?} is not a canonical six-field FEN record: {}", r.fen(), text, e);
        }
        match Board::from_fen(&text) {
            Ok(b2) => ensure!(b2 == nb && snapshot(&b2) == snapshot(&nb), "after the null move from {}: parse(format(b)) != b: {} vs {}", r.fen(), b2.as_fen(), text),
            Err(e) => fail!("after the null move from {}: own output {:?} refused by Board::from_fen: {}", r.fen(), text, e),
        }
        stats.label("successor_by_null_move");
    }
    Ok(())
}

fn raw_check(case: &Value, stats: &mut Stats) -> CheckResult {
    let p = raw_from_json(case).map_err(|e| Failure::new(format!("harness: bad raw case: {}", e)))?;
    let want_rank = if p.side == Col::W { 4 } else { 3 };
    if p.ep.map_or(false, |s| rank_of(s) != want_rank) {
        stats.label("mark_rank_inconsistent_skipped");
        // outside the property's domain; still must not panic
        let _ = raw_from_ref(&p).as_fen();
        return Ok(());
    }
    if let Some(t) = case.get("twin").and_then(|t| t.as_u64()).and_then(|sel| crate::gen::positions::twin_of(&p, sel as u32)) {
        let ttext = raw_from_ref(&t).as_fen();
        let _ = RawBoard::from_fen(&ttext).map(|r| r.as_fen());
        stats.label("twin_formatted_and_parsed_first");
    }
    let raw = raw_from_ref(&p);
    let text = raw.as_fen();
    ensure!(text == p.fen(), "raw FEN text {:?} differs from canonical {:?}", text, p.fen());
    match RawBoard::from_fen(&text) {
        Ok(r2) => ensure!(r2 == raw, "RawBoard parse(format(raw)) != raw: {} vs {}", r2.as_fen(), text),
        Err(e) => fail!("own output {:?} refused by RawBoard::from_fen: {}", text, e),
    }
    match ref_from_fen(&text) {
        Ok(q) => ensure!(q == p, "independent reader disagrees on {:?}", text),
        Err(e) => fail!("raw output {:?} is not canonical: {}", text, e),
    }
    stats.label_if(!p.is_valid(), "invalid_raw_board");
    stats.label_if(p.ep.is_some(), "ep_mark");
    if !p.is_valid() || p.ep.is_some() {
        stats.nontrivial(&(p.rep_key(), p.half, p.full));
    }
    Ok(())
}

fn gen_text_case(cur: &mut Cursor) -> Value {
    let sel = cur.below(10);
    let text = match sel {
        0..=3 => grammar_fen(cur),
        4..=6 => {
            let (p, _) = if cur.bool() { gen_raw(cur) } else { gen_position(cur) };
            mutate(cur, &p.fen(), FEN_ALPHABET)
        }
        7 => {
            let g = grammar_fen(cur);
            mutate(cur, &g, FEN_ALPHABET)
        }
        8 if cur.bool() => {
            // the repository's own FEN texts, verbatim, with one or two edits
            let t = crate::gen::positions::CORPUS[cur.below(crate::gen::positions::CORPUS.len())];
            mutate(cur, t, FEN_ALPHABET)
        }
        8 => alphabet_string(cur, FEN_ALPHABET, 80),
        _ => {
            let (p, _) = gen_position(cur);
            p.fen()
        }
    };
    json!({"text": text})
}

fn text_check(case: &Value, stats: &mut Stats) -> CheckResult {
    let s = case["text"].as_str().unwrap_or("");
    let raw = RawBoard::from_fen(s);
    let brd = Board::from_fen(s);
    match &raw {
        Ok(r1) => {
            stats.label("raw_accepted");
            let t = r1.as_fen();
            match RawBoard::from_fen(&t) {
                Ok(r2) => {
                    ensure!(r2 == *r1, "parse-format-parse is not stable for {:?}: {} then {}", s, t, r2.as_fen());
                    ensure!(r2.as_fen() == t, "format is not a fixed point for {:?}", s);
                }
                Err(e) => fail!("text {:?} accepted, but its formatted form {:?} is refused: {}", s, t, e),
            }
            if t != s {
                stats.label("noncanonical_accepted");
                stats.nontrivial(&s.to_string());
            }
            // a strictly canonical text must mean what the independent reader says
            if let Ok(p) = ref_from_fen(s) {
                ensure!(raw_from_ref(&p) == *r1, "canonical text {:?} parsed as {} but the independent reader gives {}", s, t, p.fen());
                stats.label("canonical_text");
            }
            let expect_board = Board::try_from(*r1);
            match (&brd, &expect_board) {
                (Ok(a), Ok(b)) => ensure!(snapshot(a) == snapshot(b), "Board::from_fen differs from RawBoard::from_fen + try_from"),
                (Err(_), Err(_)) => {}
                _ => fail!("Board::from_fen({:?}) and RawBoard::from_fen + validation disagree about acceptance", s),
            }
        }
        Err(_) => {
            stats.label("raw_rejected");
            ensure!(brd.is_err(), "Board::from_fen accepted {:?} although RawBoard::from_fen refuses it", s);
            if let Ok(p) = ref_from_fen(s) {
                fail!("canonical FEN {:?} (independent reader: {}) is refused by RawBoard::from_fen", s, p.fen());
            }
        }
    }
    if let Ok(b1) = &brd {
        stats.label("board_accepted");
        let t = b1.as_fen();
        match Board::from_fen(&t) {
            Ok(b2) => ensure!(b2 == *b1 && b2.as_fen() == t, "Board parse-format-parse is not stable for {:?}", s),
            Err(e) => fail!("Board text {:?} accepted but its formatted form {:?} is refused: {}", s, t, e),
        }
    }
    Ok(())
}

/// The named constructors of the initial position.
fn initial_check(_case: &Value, stats: &mut Stats) -> CheckResult {
    let std_fen = "rnbqkbnr/pppppppp/8/8/8/8/PPPPPPPP/RNBQKBNR w KQkq - 0 1";
    let r = RefPos::initial();
    ensure!(Board::initial().as_fen() == std_fen && *Board::initial().raw() == raw_from_ref(&r), "Board::initial() is {}", Board::initial().as_fen());
    ensure!(RawBoard::initial() == raw_from_ref(&r), "RawBoard::initial() is {}", RawBoard::initial().as_fen());
    ensure!(RawBoard::empty() == RawBoard::default() && RawBoard::empty().as_fen() == "8/8/8/8/8/8/8/8 w - - 0 1", "RawBoard::empty()");
    let c = owlchess::MoveChain::new_initial();
    ensure!(c.last() == &Board::initial() && c.len() == 0 && *c.startpos() == RawBoard::initial(), "MoveChain::new_initial()");
    check_consistent(&Board::initial(), "Board::initial()")?;
    for f in 0..8u8 {
        for rk in 0..8u8 {
            let c = owlchess::Coord::from_parts(owlchess::File::from_index(f as usize), owlchess::Rank::from_index(rk as usize));
            ensure!(Board::initial().get2(c.file(), c.rank()) == Board::initial().get(c) && RawBoard::initial().get2(c.file(), c.rank()) == RawBoard::initial().get(c), "get2 differs from get");
        }
    }
    stats.nontrivial(&"initial");
    stats.nontrivial(&"empty");
    Ok(())
}

fn initial_driver(_ctx: &RunCtx, stats: &mut Stats, rep: &mut Reporter) {
    let case = json!({"constructors": "initial / empty"});
    if let Err(f) = guarded("C08", "named_constructors", initial_check, &case, stats) {
        rep(case, f);
    }
}

pub fn property() -> Property {
    Property {
        id: "C08",
        rule: "positions: valid positions (20 sources): Board::from_fen(b.as_fen()) equals b in all six fields and in derived state; the text \
               passes a strict canonical-FEN reader written independently (six fields, single spaces, no adjacent digits, KQkq order, plain \
               decimal counters) which must yield the reference position, and equals the reference writer's text; the same for two successors \
               built by make_move (one special move - promotion, castling, en passant, king or rook move, rook capture - and one arbitrary), \
               which reach positions the validation gate never built, and the plain round trip for the successor by the null move. raw_boards: unvalidated \
               boards (5 sources) with a rank-consistent mark round-trip through RawBoard. texts: grammar-built FEN variants ('.' cells, \
               split runs, reversed rights, +5 / 007 counters, 4-7 fields), mutated canonical FENs and alphabet strings: for accepted text \
               parse(format(parse(s))) == parse(s) and format is a fixed point; canonical texts must be accepted with the independent \
               reader's meaning; Board::from_fen agrees with RawBoard::from_fen + validation. Non-trivial = mark set / empty or full rank \
               / multi-digit counter (positions), invalid board or mark (raw), non-canonical accepted text (texts).",
        assumptions: &["the independent FEN reader/writer in refmodel.rs defines 'canonical six-field FEN'"],
        subchecks: vec![
            SubCheck {
                name: "named_constructors",
                driver: Driver::Custom { run: initial_driver },
                check: initial_check,
                configs: Configs::ReleaseOnly,
                required: &[],
                regressions: &[],
                exhaustive: true,
            },
            SubCheck {
                name: "positions",
                driver: Driver::Generated { gen: gen_case, genome_len: 200, quick: 2_400_000, thorough: 19_200_000 },
                check: check_case,
                configs: Configs::ReleaseOnly,
                required: &["ep_mark", "mark_on_a_file", "mark_on_h_file", "empty_rank", "full_rank", "multi_digit_counter", "black_to_move", "castling_right", "successor_position", "successor_by_promotion", "successor_by_king_capture", "successor_by_null_move"],
                regressions: &[],
                exhaustive: false,
            },
            SubCheck {
                name: "raw_boards",
                driver: Driver::Generated { gen: gen_raw_case, genome_len: 256, quick: 2_400_000, thorough: 19_200_000 },
                check: raw_check,
                configs: Configs::ReleaseOnly,
                required: &["invalid_raw_board", "ep_mark"],
                regressions: &[],
                exhaustive: false,
            },
            SubCheck {
                name: "texts",
                driver: Driver::Generated { gen: gen_text_case, genome_len: 320, quick: 3_000_000, thorough: 24_000_000 },
                check: text_check,
                configs: Configs::Both,
                required: &["raw_accepted", "raw_rejected", "canonical_text", "board_accepted"], // acceptance of non-canonical text is not promised
                regressions: &[],
                exhaustive: false,
            },
        ],
    }
}
