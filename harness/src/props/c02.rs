//! C02 — the safe API yields only valid positions; a move-like value is accepted iff it is legal.

use crate::common::*;
use crate::conv::*;
use crate::engine::*;
use crate::gen::positions::gen_position;
use crate::gen::raw::{gen_raw, raw_from_json, raw_to_json};
use crate::gen::strings::*;
use crate::gen::Cursor;
use crate::props::c09::{agrees, gen_san_position, tokenize_san, SanDesc};
use crate::props::c10::all_uci_strings;
use crate::refmodel::*;
use crate::{ensure, fail};
use owlchess::chain::MoveChain;
use owlchess::moves::make::{San, Uci};
use owlchess::moves::{san, uci, unmake_move_unchecked};
use owlchess::{Board, Make};
use serde_json::{json, Value};
use std::collections::HashMap;
use std::str::FromStr;

/// Result validity: re-validating the raw contents reproduces the board identically (raw fields,
/// hash, all sets) and the side that has just moved is not in check.
pub fn check_valid_result(nb: &Board, what: &str) -> CheckResult {
    match Board::try_from(*nb.raw()) {
        Ok(x) => {
            let (a, b) = (snapshot(&x), snapshot(nb));
            if a != b {
                fail!("{}: re-validation does not reproduce the position: {}", what, snap_diff(&a, &b));
            }
        }
        Err(e) => fail!("{}: the resulting position {} fails re-validation: {}", what, nb.raw().as_fen(), e),
    }
    let r = ref_from_board(nb);
    ensure!(!r.in_check(r.side.inv()), "{}: the side that has just moved is left in check in {}", what, r.fen());
    ensure!(r.is_valid(), "{}: result is not a valid position by the reference rules: {:?}", what, r.rejections());
    Ok(())
}

fn expect_result(nb: &Board, r: &RefPos, m: &RefMove, what: &str) -> CheckResult {
    let want = r.apply(m);
    if *nb.raw() != raw_from_ref(&want) {
        fail!("{}: result {} differs from the position the move {} prescribes: {}", what, nb.raw().as_fen(), m.uci(), want.fen());
    }
    check_valid_result(nb, what)
}

// ------------------------------------------------------------------------------------------
// (a) every well-formed Move value through four entry points

fn moves_check(case: &Value, stats: &mut Stats) -> CheckResult {
    let (b, r) = match case_board(case, stats)? {
        Some(x) => x,
        None => return Ok(()),
    };
    check_valid_result(&b, "generated position")?;
    let l = r.legal();
    let s = r.pseudo_legal();
    let before = snapshot(&b);
    let mut cur = b.clone();
    let mut chain = MoveChain::new(b.clone());
    let mut accepted = 0;
    let mut refused_illegal = 0;
    for m in all_wellformed() {
        let rm = mv_from_lib(m);
        let legal = rm.map_or(false, |x| l.contains(&x));
        // Board::make_move / Make::make
        match b.make_move(*m) {
            Ok(nb) => {
                ensure!(legal, "Board::make_move accepted {} which is not legal", mv_desc(m));
                expect_result(&nb, &r, &rm.unwrap(), "Board::make_move(Move)")?;
                accepted += 1;
            }
            Err(_) => ensure!(!legal, "Board::make_move refused the legal move {}", mv_desc(m)),
        }
        ensure!(m.make(&b).is_ok() == legal, "Make::make disagrees with legality for {}", mv_desc(m));
        // make_raw on a live board
        match m.make_raw(&mut cur) {
            Ok((m2, u)) => {
                ensure!(legal && m2 == *m, "make_raw accepted {} (legal = {})", mv_desc(m), legal);
                if *cur.raw() != raw_from_ref(&r.apply(&rm.unwrap())) {
                    fail!("make_raw({}) left {} on the board", mv_desc(m), cur.raw().as_fen());
                }
                unsafe { unmake_move_unchecked(&mut cur, m2, u) };
            }
            Err(_) => {
                ensure!(!legal, "make_raw refused the legal move {}", mv_desc(m));
                let now = snapshot(&cur);
                if now != before {
                    fail!("refused make_raw({}) changed the position: {}", mv_desc(m), snap_diff(&now, &before));
                }
            }
        }
        // chain push
        match chain.push(*m) {
            Ok(()) => {
                ensure!(legal, "MoveChain::push accepted {} which is not legal", mv_desc(m));
                expect_result(chain.last(), &r, &rm.unwrap(), "MoveChain::push(Move)")?;
                ensure!(chain.pop() == Some(*m), "pop after push returned something else");
            }
            Err(_) => {
                ensure!(!legal, "MoveChain::push refused the legal move {}", mv_desc(m));
                ensure!(chain.len() == 0, "refused push changed the chain length");
            }
        }
        if !legal && rm.map_or(false, |x| s.contains(&x)) {
            refused_illegal += 1;
        }
    }
    ensure!(snapshot(chain.last()) == before && snapshot(&cur) == before, "position changed after all pushes were undone");
    ensure!(accepted == l.len(), "{} moves accepted, {} legal", accepted, l.len());
    pos_features(&r, stats);
    stats.label_if(refused_illegal > 0, "refused_for_illegality");
    stats.label_if(l.iter().any(|m| m.kind != Kind::Simple), "accepted_special");
    if refused_illegal > 0 || l.iter().any(|m| m.kind != Kind::Simple) || r.half >= 65534 || r.full >= 65534 {
        stats.nontrivial(&(r.rep_key(), r.half, r.full));
    }
    Ok(())
}

// ------------------------------------------------------------------------------------------
// (b) UCI strings and values

fn uci_check(case: &Value, stats: &mut Stats) -> CheckResult {
    let (b, r) = match case_board(case, stats)? {
        Some(x) => x,
        None => return Ok(()),
    };
    let l = r.legal();
    let mut by_text: HashMap<String, RefMove> = HashMap::new();
    for m in &l {
        by_text.insert(m.uci(), *m);
    }
    let before = snapshot(&b);
    let mut cur = b.clone();
    let mut chain = MoveChain::new(b.clone());
    let all = case["all_strings"].as_bool().unwrap_or(false);
    let pool = all_uci_strings();
    let extra: Vec<String> = case["texts"].as_array().map(|a| a.iter().filter_map(|x| x.as_str().map(|s| s.to_string())).collect()).unwrap_or_default();
    let strings: Vec<&String> = if all {
        pool.iter().chain(extra.iter()).collect()
    } else {
        // every string whose source square holds a man (either colour), "0000", and the extra texts
        pool.iter()
            .filter(|s| s.as_str() == "0000" || r.b[parse_sq(&s[0..2]).unwrap() as usize].is_some())
            .chain(extra.iter())
            .collect()
    };
    for s in strings {
        let want = by_text.get(s.as_str());
        match b.make_move(Uci(s.as_str())) {
            Ok(nb) => match want {
                Some(m) => expect_result(&nb, &r, m, "make_move(Uci)")?,
                None => fail!("make::Uci({:?}) was accepted but no legal move has that text", s),
            },
            Err(_) => ensure!(want.is_none(), "make::Uci({:?}) refused the legal move", s),
        }
        match Uci(s.as_str()).make_raw(&mut cur) {
            Ok((m2, u)) => {
                ensure!(want.is_some() && mv_from_lib(&m2) == want.copied(), "Uci({:?}).make_raw applied {}", s, mv_desc(&m2));
                unsafe { unmake_move_unchecked(&mut cur, m2, u) };
            }
            Err(_) => {
                ensure!(want.is_none(), "Uci({:?}).make_raw refused the legal move", s);
                let now = snapshot(&cur);
                if now != before {
                    fail!("refused Uci({:?}).make_raw changed the position: {}", s, snap_diff(&now, &before));
                }
            }
        }
        if let Ok(v) = uci::Move::from_str(s) {
            match v.make(&b) {
                Ok(nb) => match want {
                    Some(m) => expect_result(&nb, &r, m, "uci::Move::make")?,
                    None => fail!("uci::Move {:?} was accepted but no legal move has that text", s),
                },
                Err(_) => ensure!(want.is_none(), "uci::Move {:?} refused the legal move", s),
            }
            match chain.push(v) {
                Ok(()) => {
                    ensure!(want.is_some(), "chain.push(uci::Move {:?}) accepted an illegal move", s);
                    expect_result(chain.last(), &r, want.unwrap(), "chain.push(uci::Move)")?;
                    chain.pop();
                }
                Err(_) => ensure!(want.is_none() && chain.len() == 0, "chain.push(uci::Move {:?}) refused the legal move or changed the chain", s),
            }
        } else {
            ensure!(want.is_none(), "uci::Move::from_str refused {:?} which is the text of a legal move", s);
        }
    }
    ensure!(snapshot(&cur) == before && snapshot(chain.last()) == before, "position changed after refused / undone applications");
    pos_features(&r, stats);
    stats.label_if(all, "all_20481_strings");
    stats.label_if(l.iter().any(|m| m.kind != Kind::Simple), "accepted_special");
    if r.pseudo_legal().len() != l.len() || l.iter().any(|m| m.kind != Kind::Simple) {
        stats.nontrivial(&r.rep_key());
    }
    Ok(())
}

fn gen_uci_case(cur: &mut Cursor) -> Value {
    let (p, src) = gen_position(cur);
    let all = cur.chance(40);
    let n = cur.below(4);
    let texts: Vec<String> = (0..n)
        .map(|_| {
            let s = p.pseudo_legal();
            if s.is_empty() || cur.bool() {
                alphabet_string(cur, MOVE_ALPHABET, 7)
            } else {
                let t = s[cur.below(s.len())].uci();
                mutate(cur, &t, MOVE_ALPHABET)
            }
        })
        .collect();
    crate::common::with_twin(cur, json!({"fen": p.fen(), "src": src, "all_strings": all, "texts": texts}))
}

// ------------------------------------------------------------------------------------------
// (c) SAN strings and values

fn san_check(case: &Value, stats: &mut Stats) -> CheckResult {
    let (b, r) = match case_board(case, stats)? {
        Some(x) => x,
        None => return Ok(()),
    };
    let l = r.legal();
    let before = snapshot(&b);
    let mut cur = b.clone();
    let mut chain = MoveChain::new(b.clone());
    let mut texts: Vec<(String, Option<RefMove>)> = Vec::new();
    // canonical text of every legal move: must be accepted and produce exactly that move
    for m in &l {
        texts.push((r.san(m, &l), Some(*m)));
    }
    if let Some(a) = case["texts"].as_array() {
        for t in a {
            texts.push((t.as_str().unwrap_or("").to_string(), None));
        }
    }
    for (t, must) in &texts {
        let desc = tokenize_san(t);
        let res = b.make_move(San(t.as_str()));
        match (&res, must) {
            (Ok(nb), Some(m)) => expect_result(nb, &r, m, "make_move(San canonical)")?,
            (Err(e), Some(m)) => fail!("canonical SAN {:?} of the legal move {} was refused: {}", t, m.uci(), e),
            (Ok(nb), None) => {
                // a text that several legal moves match does not denote a move: it must be refused
                if desc != SanDesc::Unknown {
                    let cands: Vec<String> = l.iter().filter(|m| agrees(&desc, m, &r)).map(|m| m.uci()).collect();
                    ensure!(cands.len() <= 1, "San({:?}) was accepted although {} legal moves match it: {:?}", t, cands.len(), cands);
                    stats.label_if(cands.len() == 1, "unique_match_accepted");
                }
                // only-if: the result must be the successor by some legal move that agrees with the text
                let succ: Vec<&RefMove> = l.iter().filter(|m| raw_from_ref(&r.apply(m)) == *nb.raw()).collect();
                ensure!(!succ.is_empty(), "San({:?}) produced {} which no legal move leads to", t, nb.raw().as_fen());
                ensure!(succ.iter().any(|m| agrees(&desc, m, &r)), "San({:?}) produced the successor of {} which does not match the text", t, succ[0].uci());
                check_valid_result(nb, "make_move(San)")?;
                stats.label("noncanonical_san_accepted");
            }
            (Err(_), None) => {
                if desc != SanDesc::Unknown && l.iter().filter(|m| agrees(&desc, m, &r)).count() >= 2 {
                    stats.label("ambiguous_text_refused");
                }
            }
        }
        // make_raw: tells us the move that was made
        match San(t.as_str()).make_raw(&mut cur) {
            Ok((m2, u)) => {
                ensure!(res.is_ok(), "San({:?}).make_raw accepted what make refused", t);
                let rm = mv_from_lib(&m2).ok_or_else(|| Failure::new("San made a null move"))?;
                ensure!(l.contains(&rm), "San({:?}).make_raw made the illegal move {}", t, mv_desc(&m2));
                ensure!(agrees(&desc, &rm, &r), "San({:?}).make_raw made {} which does not match the text", t, rm.uci());
                if let Some(m) = must {
                    ensure!(rm == *m, "San({:?}) made {} instead of {}", t, rm.uci(), m.uci());
                }
                if *cur.raw() != raw_from_ref(&r.apply(&rm)) {
                    fail!("San({:?}).make_raw left {} on the board", t, cur.raw().as_fen());
                }
                check_consistent(&cur, "board after San make_raw")?;
                unsafe { unmake_move_unchecked(&mut cur, m2, u) };
            }
            Err(_) => {
                ensure!(res.is_err(), "San({:?}).make_raw refused what make accepted", t);
                let now = snapshot(&cur);
                if now != before {
                    fail!("refused San({:?}).make_raw changed the position: {}", t, snap_diff(&now, &before));
                }
            }
        }
        // parsed value through the chain
        match san::Move::from_str(t) {
            Ok(v) => match chain.push(v) {
                Ok(()) => {
                    ensure!(res.is_ok(), "chain.push(san::Move {:?}) accepted what San refused", t);
                    let got = chain.get(0);
                    let rm = mv_from_lib(&got).ok_or_else(|| Failure::new("null move pushed"))?;
                    ensure!(l.contains(&rm), "chain.push(san::Move {:?}) pushed the illegal move {}", t, mv_desc(&got));
                    check_valid_result(chain.last(), "chain.push(san::Move)")?;
                    chain.pop();
                }
                Err(_) => {
                    ensure!(res.is_err(), "chain.push(san::Move {:?}) refused what San accepted", t);
                    ensure!(chain.len() == 0 && snapshot(chain.last()) == before, "refused chain.push(san::Move {:?}) changed the chain", t);
                }
            },
            Err(_) => ensure!(res.is_err(), "san::Move::from_str refused {:?} which San accepted", t),
        }
        if desc != SanDesc::Unknown {
            stats.label("tokenized");
        }
    }
    ensure!(snapshot(&cur) == before && snapshot(chain.last()) == before, "position changed after refused / undone applications");
    pos_features(&r, stats);
    let ill = r.pseudo_legal().len() != l.len();
    stats.label_if(ill, "has_illegal_pseudolegal");
    stats.add("texts", texts.len() as u64);
    if ill || l.iter().any(|m| m.kind != Kind::Simple) {
        stats.nontrivial(&(r.rep_key(), case["texts"].to_string()));
    }
    Ok(())
}

fn gen_san_case(cur: &mut Cursor) -> Value {
    let (p, src) = gen_san_position(cur);
    let l = p.legal();
    let s = p.pseudo_legal();
    let n = cur.below(8);
    let texts: Vec<String> = (0..n)
        .map(|_| match cur.below(6) {
            0 | 1 => grammar_san(cur, &p).text(),
            2 => {
                // SAN-like text of an illegal pseudo-legal move, formed as if it were legal
                let ill: Vec<&RefMove> = s.iter().filter(|m| !l.contains(m)).collect();
                if ill.is_empty() {
                    grammar_san(cur, &p).text()
                } else {
                    let m = ill[cur.below(ill.len())];
                    let mut all = l.clone();
                    all.push(*m);
                    // strip the check suffix (computed on an invalid successor)
                    p.san(m, &all).trim_end_matches(['+', '#']).to_string()
                }
            }
            3 => {
                if l.is_empty() {
                    String::new()
                } else {
                    let m = l[cur.below(l.len())];
                    mutate(cur, &p.san(&m, &l), MOVE_ALPHABET)
                }
            }
            4 if cur.bool() => {
                let f1 = (b'a' + cur.below(8) as u8) as char;
                let f2 = (b'a' + cur.below(8) as u8) as char;
                format!("{}{}{}", f1, f2, cur.pick(&["", "", "=Q", "N"]))
            }
            4 => {
                // a piece move with all origin hints stripped (ambiguous when several pieces reach the square)
                let pm: Vec<&RefMove> = l.iter().filter(|m| m.man.1 != Pc::P && m.kind == Kind::Simple).collect();
                if pm.is_empty() {
                    String::new()
                } else {
                    let m = pm[cur.below(pm.len())];
                    format!("{}{}{}", m.man.1.letter(), if p.b[m.to as usize].is_some() { "x" } else { "" }, sq_name(m.to))
                }
            }
            _ => alphabet_string(cur, MOVE_ALPHABET, 8),
        })
        .collect();
    let mut texts = texts;
    if p.ep.is_some() {
        // every two-file pawn-capture text, so that the abbreviated resolver sees all file pairs incl. the edges
        for f1 in 0..8u8 {
            for f2 in 0..8u8 {
                texts.push(format!("{}{}", (b'a' + f1) as char, (b'a' + f2) as char));
            }
        }
    }
    crate::common::with_twin(cur, json!({"fen": p.fen(), "src": src, "texts": texts}))
}

// ------------------------------------------------------------------------------------------
// (d) walks mixing entry points

fn gen_walk2_case(cur: &mut Cursor) -> Value {
    let (p, src) = gen_position(cur);
    let n = 1 + cur.below(200);
    let steps: Vec<u8> = (0..n).map(|_| cur.u8()).collect();
    crate::common::with_twin(cur, json!({"fen": p.fen(), "src": src, "steps": steps}))
}

fn walk_check(case: &Value, stats: &mut Stats) -> CheckResult {
    let (b, r0) = match case_board(case, stats)? {
        Some(x) => x,
        None => return Ok(()),
    };
    let steps: Vec<u8> = case["steps"].as_array().map(|a| a.iter().map(|x| x.as_u64().unwrap_or(0) as u8).collect()).unwrap_or_default();
    let mut cur = b.clone();
    let mut r = r0.clone();
    let mut chain = MoveChain::new(b.clone());
    let mut applied = 0;
    let mut specials = 0;
    let mut i = 0;
    while i + 1 < steps.len() {
        let (route, k) = (steps[i] % 8, steps[i + 1]);
        i += 2;
        let l = r.legal();
        if l.is_empty() {
            break;
        }
        let m = l[(k as usize * l.len()) >> 8];
        let mv = mv_to_lib(&m).map_err(Failure::new)?;
        let text_uci = m.uci();
        let text_san = r.san(&m, &l);
        let what = format!("step {} route {} move {}", i / 2, route, text_san);
        let nb: Board = match route {
            0 => cur.make_move(mv).map_err(|e| Failure::new(format!("{}: legal move refused: {}", what, e)))?,
            1 => cur.make_move(Uci(text_uci.as_str())).map_err(|e| Failure::new(format!("{}: refused: {}", what, e)))?,
            2 => cur.make_move(San(text_san.as_str())).map_err(|e| Failure::new(format!("{}: refused: {}", what, e)))?,
            3 => cur.make_move(uci::Move::from(mv)).map_err(|e| Failure::new(format!("{}: refused: {}", what, e)))?,
            4 => {
                let v = san::Move::from_str(&text_san).map_err(|e| Failure::new(format!("{}: SAN text refused: {}", what, e)))?;
                cur.make_move(v).map_err(|e| Failure::new(format!("{}: refused: {}", what, e)))?
            }
            5 => {
                let mut c = cur.clone();
                mv.make_raw(&mut c).map_err(|e| Failure::new(format!("{}: make_raw refused: {}", what, e)))?;
                c
            }
            6 => {
                let mut c = cur.clone();
                San(text_san.as_str()).make_raw(&mut c).map_err(|e| Failure::new(format!("{}: San make_raw refused: {}", what, e)))?;
                c
            }
            _ => {
                // an illegal attempt in between must leave everything as it was
                let before = snapshot(&cur);
                let s = r.pseudo_legal();
                if let Some(ill) = s.iter().find(|x| !l.contains(x)) {
                    let im = mv_to_lib(ill).map_err(Failure::new)?;
                    let mut c = cur.clone();
                    ensure!(im.make_raw(&mut c).is_err(), "{}: illegal move {} accepted", what, ill.uci());
                    ensure!(snapshot(&c) == before, "{}: refused illegal move changed the board", what);
                    stats.label("illegal_attempt_between");
                }
                cur.make_move(mv).map_err(|e| Failure::new(format!("{}: legal move refused: {}", what, e)))?
            }
        };
        expect_result(&nb, &r, &m, &what)?;
        chain.push(mv).map_err(|e| Failure::new(format!("{}: chain.push refused: {}", what, e)))?;
        ensure!(snapshot(chain.last()) == snapshot(&nb), "{}: chain position differs from the directly applied one", what);
        r = r.apply(&m);
        cur = nb;
        applied += 1;
        if m.kind != Kind::Simple {
            specials += 1;
        }
    }
    stats.label_if(applied >= 50, "walk>=50");
    stats.label_if(specials > 0, "walk_with_special");
    stats.label_if(r.half == 65535 || r.full == 65535, "counter_saturated_in_walk");
    stats.add("applications", applied as u64);
    if applied >= 2 {
        stats.nontrivial(&(r0.rep_key(), steps));
    }
    Ok(())
}

// ------------------------------------------------------------------------------------------
// (e) positions obtained by parsing / conversion

fn gen_parsed_case(cur: &mut Cursor) -> Value {
    match cur.below(3) {
        0 => json!({"text": grammar_fen(cur)}),
        1 => {
            let (p, _) = gen_position(cur);
            json!({"text": mutate(cur, &p.fen(), FEN_ALPHABET)})
        }
        _ => {
            let (p, src) = gen_raw(cur);
            json!({"raw": raw_to_json(&p, src)})
        }
    }
}

fn parsed_check(case: &Value, stats: &mut Stats) -> CheckResult {
    if let Some(t) = case["text"].as_str() {
        if let Ok(b) = Board::from_fen(t) {
            check_valid_result(&b, "Board::from_fen")?;
            stats.label("fen_accepted");
            stats.nontrivial(&t.to_string());
        } else {
            stats.label("fen_refused");
        }
    } else {
        let p = raw_from_json(&case["raw"]).map_err(|e| Failure::new(format!("harness: {}", e)))?;
        if let Ok(b) = Board::try_from(raw_from_ref(&p)) {
            check_valid_result(&b, "Board::try_from(RawBoard)")?;
            stats.label("raw_accepted");
            stats.nontrivial(&p.rep_key());
        } else {
            stats.label("raw_refused");
        }
    }
    Ok(())
}

pub fn property() -> Property {
    Property {
        id: "C02",
        rule: "moves: valid positions (20 sources, counters at their limits included) x all 7,781 well-formed Move values of both colours \
               through Board::make_move, Make::make, Make::make_raw and MoveChain::push. uci_strings: positions x UCI strings (all 20,481 \
               for ~1/6 of the positions, otherwise every string naming an occupied source square + mutated texts) as make::Uci and as \
               uci::Move. san_texts: positions (incl. the SAN family) x the canonical SAN of every legal move (must be accepted and make \
               exactly that move) + grammar / illegal-twin / mutated / terse / alphabet texts as make::San and as san::Move (only-if: the \
               move made is legal and matches the text). walks: up to 100 consecutive applications mixing seven routes with illegal \
               attempts in between. parsed: accepted FEN texts and raw boards. Oracle: accepted <=> reference-legal; result equals the \
               reference apply(); re-validating the result reproduces it identically (raw, hash, all sets) and the mover is not left in \
               check; refusal returns Err, never panics, and leaves board / chain snapshots bit-for-bit unchanged. Non-trivial = position \
               with an illegal pseudo-legal move or an accepted special move or a counter at its limit; walks with >= 2 applications.",
        assumptions: &["reference legal set and apply() (perft-validated)", "the 'if' direction for SAN is demanded for canonical texts only here (documented variants: C09)"],
        subchecks: vec![
            SubCheck {
                name: "moves",
                driver: Driver::Generated { gen: gen_pos_case, genome_len: 192, quick: 80_000, thorough: 2_000_000 },
                check: moves_check,
                configs: Configs::Both,
                required: &["refused_for_illegality", "accepted_special", "counter_edge", "in_check", "ep_mark", "castling_right"],
                regressions: &[
                    r#"{"fen":"8/8/8/K2Pp2r/8/8/8/7k w - e6 0 1","src":"regression_D1"}"#,
                    r#"{"fen":"7k/8/8/8/8/8/8/K7 w - - 65535 65535","src":"regression_D3"}"#,
                ],
                exhaustive: false,
            },
            SubCheck {
                name: "uci_strings",
                driver: Driver::Generated { gen: gen_uci_case, genome_len: 256, quick: 60_000, thorough: 1_500_000 },
                check: uci_check,
                configs: Configs::Both,
                required: &["all_20481_strings", "accepted_special"],
                regressions: &[
                    r#"{"fen":"rnbqkbnr/pppppppp/8/8/8/8/PPPPPPPP/RNBQKBNR w KQkq - 0 1","src":"regression_D2","all_strings":false,"texts":["aé4","e2eé","é2e4","0000"]}"#,
                ],
                exhaustive: false,
            },
            SubCheck {
                name: "san_texts",
                driver: Driver::Generated { gen: gen_san_case, genome_len: 320, quick: 150_000, thorough: 3_000_000 },
                check: san_check,
                configs: Configs::Both,
                required: &["has_illegal_pseudolegal", "tokenized", "ambiguous_text_refused"], // acceptance of non-canonical SAN is not promised
                regressions: &[
                    r#"{"fen":"8/8/8/K2Pp2r/8/8/8/7k w - e6 0 1","src":"regression_D1","texts":["de","dxe6","d5e6","de6"]}"#,
                    r#"{"fen":"rnbqkbnr/pppppppp/8/8/8/8/PPPPPPPP/RNBQKBNR w KQkq - 0 1","src":"regression_D2","texts":["N","R+","Nx","Q#","€","N€"]}"#,
                ],
                exhaustive: false,
            },
            SubCheck {
                name: "walks",
                driver: Driver::Generated { gen: gen_walk2_case, genome_len: 512, quick: 40_000, thorough: 800_000 },
                check: walk_check,
                configs: Configs::Both,
                required: &["walk>=50", "walk_with_special", "illegal_attempt_between", "counter_saturated_in_walk"],
                regressions: &[],
                exhaustive: false,
            },
            SubCheck {
                name: "parsed_positions",
                driver: Driver::Generated { gen: gen_parsed_case, genome_len: 320, quick: 400_000, thorough: 8_000_000 },
                check: parsed_check,
                configs: Configs::ReleaseOnly,
                required: &["fen_accepted", "raw_accepted"],
                regressions: &[],
                exhaustive: false,
            },
        ],
    }
}
