//! C06 — semilegal generation, semilegal validation and well-formedness agree.

use crate::common::*;
use crate::conv::*;
use crate::engine::*;
use crate::refmodel::*;
use crate::{ensure, fail};
use owlchess::movegen::semilegal;
use owlchess::types::{Cell, Coord};
use owlchess::{Board, Move, MoveKind};
use serde_json::{json, Value};

/// Geometric well-formedness by coordinates (reference frame: a1 = 0).
pub fn ref_well_formed(kind: MoveKind, man: Option<Man>, from: Sq, to: Sq) -> bool {
    if kind == MoveKind::Null {
        // only the NULL tuple: empty cell, both squares = library index 0 (a8)
        return man.is_none() && from == 56 && to == 56;
    }
    let (c, p) = match man {
        Some(m) => m,
        None => return false,
    };
    if from == to {
        return false;
    }
    let df = file_of(to) - file_of(from);
    let dr = rank_of(to) - rank_of(from);
    let (rf, rt) = (rank_of(from), rank_of(to));
    let rel = |r: i8| if c == Col::W { r } else { 7 - r }; // rank from the mover's side, 0-based
    match kind {
        MoveKind::Null => unreachable!(),
        MoveKind::Simple => match p {
            Pc::P => df.abs() <= 1 && dr == c.dir() && (1..=6).contains(&rf) && (1..=6).contains(&rt),
            Pc::K => df.abs() <= 1 && dr.abs() <= 1,
            Pc::N => (df.abs() == 1 && dr.abs() == 2) || (df.abs() == 2 && dr.abs() == 1),
            Pc::B => df.abs() == dr.abs(),
            Pc::R => df == 0 || dr == 0,
            Pc::Q => df == 0 || dr == 0 || df.abs() == dr.abs(),
        },
        MoveKind::CastlingKingside => p == Pc::K && rel(rf) == 0 && rf == rt && file_of(from) == 4 && file_of(to) == 6,
        MoveKind::CastlingQueenside => p == Pc::K && rel(rf) == 0 && rf == rt && file_of(from) == 4 && file_of(to) == 2,
        MoveKind::PawnDouble => p == Pc::P && df == 0 && rel(rf) == 1 && rel(rt) == 3,
        MoveKind::Enpassant => p == Pc::P && df.abs() == 1 && rel(rf) == 4 && rel(rt) == 5,
        MoveKind::PromoteKnight | MoveKind::PromoteBishop | MoveKind::PromoteRook | MoveKind::PromoteQueen => {
            p == Pc::P && df.abs() <= 1 && rel(rf) == 6 && rel(rt) == 7
        }
    }
}

fn kind_idx(k: MoveKind) -> usize {
    all_kinds().iter().position(|x| *x == k).unwrap()
}

fn tuple_check(case: &Value, stats: &mut Stats) -> CheckResult {
    let k = all_kinds()[case["kind"].as_u64().unwrap_or(0) as usize % 10];
    let cell = Cell::from_index(case["cell"].as_u64().unwrap_or(0) as usize % 13);
    let s = Coord::from_index(case["src"].as_u64().unwrap_or(0) as usize % 64);
    let d = Coord::from_index(case["dst"].as_u64().unwrap_or(0) as usize % 64);
    let got = Move::new(k, cell, s, d);
    let want = ref_well_formed(k, cell_to_man(cell), sq_from_lib(s), sq_from_lib(d));
    ensure!(
        got.is_ok() == want,
        "Move::new({:?}, {}, {}, {}) accepted = {} but geometric well-formedness = {}",
        k, cell, s, d, got.is_ok(), want
    );
    // the unchecked constructor followed by the well-formedness test must agree with the checked constructor
    // (calling is_well_formed and the getters is explicitly allowed on moves that are not well-formed)
    let raw = unsafe { Move::new_unchecked(k, cell, s, d) };
    ensure!(raw.is_well_formed() == want, "new_unchecked({:?}, {}, {}, {}).is_well_formed() = {} but geometric well-formedness = {}", k, cell, s, d, raw.is_well_formed(), want);
    ensure!(raw.kind() == k && raw.src_cell() == cell && raw.src() == s && raw.dst() == d, "getters of an unchecked move disagree with its arguments");
    if let Ok(m) = got {
        ensure!(m.is_well_formed(), "constructed move reports itself not well-formed");
        ensure!(m.kind() == k && m.src_cell() == cell && m.src() == s && m.dst() == d, "getters disagree with constructor arguments");
        stats.nontrivial(&(kind_idx(k), cell.index(), s.index(), d.index()));
    }
    Ok(())
}

fn tuples_driver(_ctx: &RunCtx, stats: &mut Stats, rep: &mut Reporter) {
    par_chunks(10 * 13 * 64 * 64, stats, rep, |range, st, fails| {
        for i in range {
            let (k, rest) = (i / (13 * 64 * 64), i % (13 * 64 * 64));
            let (c, rest) = (rest / 4096, rest % 4096);
            let case = json!({"kind": k, "cell": c, "src": rest / 64, "dst": rest % 64});
            if let Err(f) = guarded("C06", "all_move_tuples", tuple_check, &case, st) {
                if fails.len() < 4 {
                    fails.push((case, f));
                }
            }
        }
    });
    stats.add("accepted_tuples", all_wellformed().len() as u64);
    // named constructors
    for (c, rc) in [(owlchess::Color::White, Col::W), (owlchess::Color::Black, Col::B)] {
        for (side, k, file) in [(owlchess::types::CastlingSide::King, MoveKind::CastlingKingside, 6i8), (owlchess::types::CastlingSide::Queen, MoveKind::CastlingQueenside, 2i8)] {
            let m = Move::from_castling(c, side);
            let ok = m.is_well_formed()
                && m.kind() == k
                && cell_to_man(m.src_cell()) == Some((rc, Pc::K))
                && sq_from_lib(m.src()) == mk_sq(4, rc.home_rank()).unwrap()
                && sq_from_lib(m.dst()) == mk_sq(file, rc.home_rank()).unwrap();
            if !ok {
                rep(json!({"from_castling": format!("{:?} {:?}", c, side)}), Failure::new(format!("Move::from_castling({:?}, {:?}) = {}", c, side, mv_desc(&m))));
            }
        }
    }
    if !(Move::NULL.is_well_formed() && Move::default() == Move::NULL && Move::NULL.kind() == MoveKind::Null) {
        rep(json!({"null": true}), Failure::new("Move::NULL is not the well-formed default null move"));
    }
}

fn multiset_eq(a: &[Move], b: &[Move]) -> bool {
    let mut x: Vec<String> = a.iter().map(mv_desc).collect();
    let mut y: Vec<String> = b.iter().map(mv_desc).collect();
    x.sort();
    y.sort();
    x == y
}

pub fn check_position(b: &Board, r: &RefPos, stats: &mut Stats) -> CheckResult {
    let s_ref = r.pseudo_legal();
    let gen_all: Vec<Move> = semilegal::gen_all(b).iter().copied().collect();
    // every generated move is well-formed and names the man on its source square
    for m in &gen_all {
        ensure!(m.is_well_formed(), "generated move {} is not well-formed", mv_desc(m));
        ensure!(m.src_cell() == b.get(m.src()), "generated move {} names {} but {} stands on {}", mv_desc(m), m.src_cell(), b.get(m.src()), m.src());
        ensure!(Move::new(m.kind(), m.src_cell(), m.src(), m.dst()) == Ok(*m), "generated move {} is refused by Move::new", mv_desc(m));
    }
    let lib_ref = lib_moves_to_ref(&gen_all)?;
    if let Some(d) = diff_moves(&lib_ref, &s_ref) {
        fail!("semilegal::gen_all differs from the pseudo-legal moves: {}", d);
    }
    // validation agrees on every well-formed move of both colours
    let mut n_semilegal = 0;
    for m in all_wellformed() {
        let v = m.is_semilegal(b);
        let g = gen_all.contains(m);
        ensure!(v == g, "is_semilegal({}) = {} but generator membership = {}", mv_desc(m), v, g);
        ensure!(m.semi_validate(b).is_ok() == v, "semi_validate disagrees with is_semilegal on {}", mv_desc(m));
        if v {
            n_semilegal += 1;
        }
    }
    ensure!(n_semilegal == s_ref.len(), "is_semilegal accepted {} moves, reference has {}", n_semilegal, s_ref.len());
    // partitions
    let cap: Vec<Move> = semilegal::gen_capture(b).iter().copied().collect();
    let sim: Vec<Move> = semilegal::gen_simple(b).iter().copied().collect();
    let snp: Vec<Move> = semilegal::gen_simple_no_promote(b).iter().copied().collect();
    let sp: Vec<Move> = semilegal::gen_simple_promote(b).iter().copied().collect();
    let mut u = cap.clone();
    u.extend(sim.iter().copied());
    ensure!(multiset_eq(&u, &gen_all), "gen_all is not the disjoint union of gen_capture and gen_simple");
    let mut u2 = snp.clone();
    u2.extend(sp.iter().copied());
    ensure!(multiset_eq(&u2, &sim), "gen_simple is not the disjoint union of its promotion and non-promotion parts");
    for m in &cap {
        let rm = mv_from_lib(m).unwrap();
        ensure!(r.is_capture(&rm), "gen_capture produced the non-capture {}", mv_desc(m));
    }
    for m in &sim {
        let rm = mv_from_lib(m).unwrap();
        ensure!(!r.is_capture(&rm), "gen_simple produced the capture {}", mv_desc(m));
    }
    for m in &sp {
        ensure!(m.kind().promote().is_some(), "gen_simple_promote produced the non-promotion {}", mv_desc(m));
    }
    for m in &snp {
        ensure!(m.kind().promote().is_none(), "gen_simple_no_promote produced the promotion {}", mv_desc(m));
    }
    // _into variants with a Vec sink
    let mut v: Vec<Move> = Vec::new();
    semilegal::gen_all_into(b, &mut v);
    ensure!(v == gen_all, "gen_all_into(Vec) differs from gen_all");

    // classification: castling / ep / promotion candidates rejected for a semilegal reason
    pos_features(r, stats);
    let l_ref = r.legal();
    let us = r.side;
    let hr = us.home_rank();
    let has_right = r.castle[right_idx(us, true)] || r.castle[right_idx(us, false)];
    let castles = s_ref.iter().filter(|m| matches!(m.kind, Kind::CastleK | Kind::CastleQ)).count();
    let rights = r.castle[right_idx(us, true)] as usize + r.castle[right_idx(us, false)] as usize;
    let castle_rejected = has_right && castles < rights;
    stats.label_if(castle_rejected, "castling_candidate_rejected");
    let _ = hr;
    let blocked_double = (0..8i8).any(|f| {
        let start = if us == Col::W { 1 } else { 6 };
        let s = mk_sq(f, start).unwrap();
        r.b[s as usize] == Some((us, Pc::P))
            && (r.b[mk_sq(f, start + us.dir()).unwrap() as usize].is_some() || r.b[mk_sq(f, start + 2 * us.dir()).unwrap() as usize].is_some())
    });
    stats.label_if(blocked_double, "double_step_blocked");
    stats.label_if(r.ep.is_some() && !s_ref.iter().any(|m| m.kind == Kind::Ep), "ep_mark_without_capturer");
    stats.label_if(s_ref.iter().any(|m| m.kind == Kind::Ep), "ep_candidate");
    stats.label_if(s_ref.iter().any(|m| matches!(m.kind, Kind::Promo(_))), "promotion_candidate");
    if s_ref.len() != l_ref.len() || castle_rejected || blocked_double || r.ep.is_some() {
        stats.nontrivial(&r.rep_key());
    }
    Ok(())
}

fn check_case(case: &Value, stats: &mut Stats) -> CheckResult {
    match case_board(case, stats)? {
        Some((b, r)) => check_position(&b, &r, stats),
        None => Ok(()),
    }
}

fn pair_check(case: &Value, stats: &mut Stats) -> CheckResult {
    run_pair(case, stats, check_case)
}

fn pair_driver(ctx: &RunCtx, stats: &mut Stats, rep: &mut Reporter) {
    half_key_driver("C06", pair_check, ctx, stats, rep)
}

pub fn property() -> Property {
    Property {
        id: "C06",
        rule: "Exhaustive: all 532,480 (kind, cell, src, dst) tuples through Move::new against a coordinate-geometry predicate. \
               Generated: valid positions (20 sources) x all 7,781 well-formed moves of both colours: is_semilegal <=> member of \
               semilegal::gen_all <=> member of the reference pseudo-legal set; generated moves are well-formed and name the man on \
               their source square; gen_all = gen_capture + gen_simple and gen_simple = no_promote + promote as multisets. \
               Non-trivial = position whose pseudo-legal set differs from its legal set, or with a castling candidate rejected, \
               a blocked double step or an ep mark; distinct by (squares, side, rights, mark); for tuples: accepted tuples.",
        assumptions: &["reference pseudo-legal generator is correct (its legal subset is validated against published perft)"],
        subchecks: vec![
            SubCheck {
                name: "all_move_tuples",
                driver: Driver::Custom { run: tuples_driver },
                check: tuple_check,
                configs: Configs::Both,
                required: &[],
                regressions: &[],
                exhaustive: true,
            },
            SubCheck {
                name: "generated_positions",
                driver: Driver::Generated { gen: gen_pos_case, genome_len: 192, quick: 500_000, thorough: 6_000_000 },
                check: check_case,
                configs: Configs::Both,
                required: &["castling_candidate_rejected", "ep_candidate", "promotion_candidate", "double_step_blocked", "black_to_move"],
                regressions: &[],
                exhaustive: false,
            },
            SubCheck {
                name: "half_key_pairs",
                driver: Driver::Custom { run: pair_driver },
                check: pair_check,
                configs: Configs::ReleaseOnly,
                required: &["equal_low_half_of_the_key", "equal_high_half_of_the_key"],
                regressions: &[],
                exhaustive: false,
            },
        ],
    }
}
