//! C18 — White/Black and left/right symmetry (metamorphic; no reference move generator needed).

use crate::common::*;
use crate::conv::*;
use crate::engine::*;
use crate::gen::positions::{flip_colors, flip_files};
use crate::refmodel::*;
use crate::{ensure, fail};
use owlchess::movegen::{legal, semilegal};
use owlchess::types::{Color, Outcome};
use owlchess::{Board, Move};
use serde_json::Value;

fn map_v(m: &RefMove) -> RefMove {
    let f = |s: Sq| mk_sq(file_of(s), 7 - rank_of(s)).unwrap();
    RefMove { kind: m.kind, man: (m.man.0.inv(), m.man.1), from: f(m.from), to: f(m.to) }
}
fn map_h(m: &RefMove) -> RefMove {
    let f = |s: Sq| mk_sq(7 - file_of(s), rank_of(s)).unwrap();
    RefMove { kind: m.kind, man: m.man, from: f(m.from), to: f(m.to) }
}

fn swap_winner(o: Option<Outcome>) -> Option<Outcome> {
    match o {
        Some(Outcome::Win { side, reason }) => Some(Outcome::Win { side: if side == Color::White { Color::Black } else { Color::White }, reason }),
        x => x,
    }
}

fn compare(b: &Board, img: &RefPos, map: fn(&RefMove) -> RefMove, swap: bool, name: &str) -> CheckResult {
    let ib = match Board::try_from(raw_from_ref(img)) {
        Ok(x) => x,
        Err(e) => fail!("{} image of a valid position is refused by validation: {}", name, e),
    };
    ensure!(*ib.raw() == raw_from_ref(img), "{} image was changed by validation", name);
    for (gname, a, bb) in [
        ("legal::gen_all", legal::gen_all(b).to_vec(), legal::gen_all(&ib).to_vec()),
        ("semilegal::gen_all", semilegal::gen_all(b).to_vec(), semilegal::gen_all(&ib).to_vec()),
        ("legal::gen_capture", legal::gen_capture(b).to_vec(), legal::gen_capture(&ib).to_vec()),
    ] {
        let a: Vec<Move> = a;
        let mapped: Vec<RefMove> = lib_moves_to_ref(&a)?.iter().map(map).collect();
        let got = lib_moves_to_ref(&bb)?;
        if let Some(d) = diff_moves(&got, &mapped) {
            fail!("{} of the {} image is not the image of the original's ({} = image side): {}", gname, name, "library-only", d);
        }
    }
    ensure!(b.is_check() == ib.is_check(), "is_check differs under {}", name);
    ensure!(b.has_legal_moves() == ib.has_legal_moves(), "has_legal_moves differs under {}", name);
    let (o1, o2) = (b.calc_outcome(), ib.calc_outcome());
    let o1m = if swap { swap_winner(o1) } else { o1 };
    ensure!(o1m == o2, "calc_outcome differs under {}: {:?} vs {:?}", name, o1, o2);
    ensure!(b.calc_draw_simple() == ib.calc_draw_simple(), "calc_draw_simple differs under {}", name);
    Ok(())
}

pub fn check_position(b: &Board, r: &RefPos, stats: &mut Stats) -> CheckResult {
    let v = flip_colors(r);
    compare(b, &v, map_v, true, "colour-mirror")?;
    let has_pawns = r.b.iter().any(|m| matches!(m, Some((_, Pc::P))));
    let has_rights = r.castle.iter().any(|x| *x);
    stats.label("vertical");
    if !has_rights {
        let h = flip_files(r);
        compare(b, &h, map_h, false, "left-right mirror")?;
        stats.label("horizontal");
        if h != *r {
            stats.label("horizontal_asymmetric");
        }
    }
    pos_features(r, stats);
    stats.label_if(has_pawns, "has_pawns");
    stats.label_if(b.calc_outcome().is_some(), "has_outcome");
    if has_pawns || has_rights || r.ep.is_some() {
        stats.nontrivial(&r.rep_key());
    }
    Ok(())
}

fn check_case(case: &Value, stats: &mut Stats) -> CheckResult {
    match case_board(case, stats)? {
        Some((b, r)) => check_position(&b, &r, stats),
        None => Ok(()),
    }
}

/// Validity itself under the two mirrors, on unvalidated boards: the gate's verdict must not depend on which colour is
/// which (or on left and right when there are no rights), and what it makes of an accepted board must be the image.
fn raw_mirror_check(case: &Value, stats: &mut Stats) -> CheckResult {
    let p = crate::gen::raw::raw_from_json(case).map_err(|e| Failure::new(format!("harness: bad raw case: {}", e)))?;
    let mut images = vec![("colour-mirror", flip_colors(&p))];
    if !p.castle.iter().any(|x| *x) {
        images.push(("left-right mirror", flip_files(&p)));
    }
    let a = Board::try_from(raw_from_ref(&p));
    for (name, img) in images {
        let im = Board::try_from(raw_from_ref(&img));
        match (&a, &im) {
            (Ok(x), Ok(y)) => {
                let want = if name == "colour-mirror" { flip_colors(&ref_from_raw(x.raw())) } else { flip_files(&ref_from_raw(x.raw())) };
                ensure!(*y.raw() == raw_from_ref(&want), "validation makes {} of the {} image but {} of the original", y.raw().as_fen(), name, x.raw().as_fen());
            }
            (Err(_), Err(_)) => {}
            (Ok(_), Err(e)) => fail!("{} is accepted but its {} image {} is refused: {}", p.fen(), name, img.fen(), e),
            (Err(e), Ok(_)) => fail!("{} is refused ({}) but its {} image {} is accepted", p.fen(), e, name, img.fen()),
        }
    }
    stats.label(if a.is_ok() { "accepted" } else { "refused" });
    let (w, b) = (p.count(Col::W), p.count(Col::B));
    stats.label_if(w > 16 || b > 16, "more_than_16_men_of_a_colour");
    stats.label_if(w != b, "unequal_armies");
    if w != b || a.is_err() {
        stats.nontrivial(&(p.rep_key(), "raw"));
    }
    Ok(())
}

pub fn property() -> Property {
    Property {
        id: "C18",
        rule: "Metamorphic: valid positions (20 sources) are mirrored top-to-bottom with colours, side, rights and mark swapped (always) and \
               left-to-right (when no castling rights); the image must pass validation unchanged, and legal::gen_all, semilegal::gen_all, \
               legal::gen_capture of the image must equal the mapped move sets of the original; is_check, has_legal_moves, calc_outcome \
               (winner swapped), calc_draw_simple must agree. raw_boards_mirror: unvalidated boards (5 sources incl. injected faults and armies \
               around the 16-men limit): validation accepts a board exactly when it accepts its images, and what it makes of them are \
               images of each other. Non-trivial = position with pawns, rights or an ep mark; distinct by \
               (squares, side, rights, mark).",
        assumptions: &["no reference model involved: the library is compared with itself under a symmetry of the rules"],
        subchecks: vec![SubCheck {
            name: "generated_positions",
            driver: Driver::Generated { gen: gen_pos_case, genome_len: 192, quick: 4_000_000, thorough: 32_000_000 },
            check: check_case,
            configs: Configs::ReleaseOnly,
            required: &["horizontal", "castling_right", "ep_mark", "has_outcome", "has_pawns"],
            regressions: &[],
            exhaustive: false,
        }, SubCheck {
            name: "raw_boards_mirror",
            driver: Driver::Generated { gen: crate::gen::raw::gen_raw_case, genome_len: 256, quick: 1_500_000, thorough: 12_000_000 },
            check: raw_mirror_check,
            configs: Configs::ReleaseOnly,
            required: &["accepted", "refused", "more_than_16_men_of_a_colour", "unequal_armies"],
            regressions: &[],
            exhaustive: false,
        }],
    }
}
