//! C05 — incremental Zobrist hash and occupancy sets equal a from-scratch recomputation.

use crate::common::*;
use crate::conv::*;
use crate::engine::*;
use crate::gen::positions::gen_position;
use crate::gen::Cursor;
use crate::refmodel::*;
use crate::{ensure, fail};
use owlchess::types::{CastlingRights, Cell, Color, Coord};
use owlchess::{Board, RawBoard};
use serde_json::{json, Value};

fn history_check(case: &Value, stats: &mut Stats) -> CheckResult {
    let (b, r) = match case_board(case, stats)? {
        Some(x) => x,
        None => return Ok(()),
    };
    check_consistent(&b, "start position")?;
    let path = case_path(case);
    let mut steps = 0u64;
    let rep = walk(&b, &path, false, &mut |pos| {
        steps += 1;
        check_consistent(pos, "after a move of the history")
    })?;
    check_consistent(&b, "start position after the walk")?;
    stats.add("positions_checked", steps + 2);
    stats.label_if(rep.specials > 0, "special_move");
    stats.label_if(rep.captures > 0, "capture");
    stats.label_if(rep.pops > 0, "undo_interleaved");
    stats.label_if(rep.nulls > 0, "null_move");
    stats.label_if(rep.max_depth >= 40, "depth>=40");
    pos_features(&r, stats);
    if rep.specials > 0 || rep.captures > 0 || rep.pops > 0 {
        stats.nontrivial(&(r.rep_key(), path));
    }
    Ok(())
}

/// Same walk, but re-checks after each unmake as well (the undo path restores hash from RawUndo
/// and the sets incrementally).
fn undo_history_check(case: &Value, stats: &mut Stats) -> CheckResult {
    use owlchess::movegen::semilegal;
    use owlchess::moves::{make_move_unchecked, unmake_move_unchecked};
    let (b, r) = match case_board(case, stats)? {
        Some(x) => x,
        None => return Ok(()),
    };
    let path = case_path(case);
    let mut cur = b.clone();
    let mut stack = Vec::new();
    let mut undone = 0;
    for &byte in &path {
        if byte < 100 && !stack.is_empty() {
            let (mv, u) = stack.pop().unwrap();
            unsafe { unmake_move_unchecked(&mut cur, mv, u) };
            check_consistent(&cur, "after unmake")?;
            undone += 1;
            continue;
        }
        let ms = semilegal::gen_all(&cur);
        if ms.is_empty() {
            continue;
        }
        let mv = ms[(byte as usize * ms.len()) >> 8];
        let u = unsafe { make_move_unchecked(&mut cur, mv) };
        if cur.is_opponent_king_attacked() {
            // even the transient position must be internally consistent for the rollback to be exact
            let s = snapshot(&cur);
            let rc = recomputed(cur.raw());
            if s != rc {
                fail!("transient position after illegal {} is inconsistent: {}", mv_desc(&mv), snap_diff(&s, &rc));
            }
            unsafe { unmake_move_unchecked(&mut cur, mv, u) };
            check_consistent(&cur, "after rollback of an illegal move")?;
            stats.label("illegal_rollback");
            continue;
        }
        check_consistent(&cur, "after make")?;
        stack.push((mv, u));
    }
    stats.label_if(undone > 0, "undo_checked");
    if undone > 0 {
        stats.nontrivial(&(r.rep_key(), path));
    }
    Ok(())
}

/// Start positions as the library itself produces them from unvalidated input (normalisation paths of the gate,
/// FEN parsing), followed by a short history.
fn fresh_check(case: &Value, stats: &mut Stats) -> CheckResult {
    let p = crate::gen::raw::raw_from_json(&case["raw"]).map_err(|e| Failure::new(format!("harness: {}", e)))?;
    let raw = raw_from_ref(&p);
    let path = case_path(case);
    for (how, b) in [("try_from", Board::try_from(raw).ok()), ("from_fen", if p.ep.map_or(true, |s| rank_of(s) == if p.side == Col::W { 4 } else { 3 }) { Board::from_fen(&raw.as_fen()).ok() } else { None })] {
        let b = match b {
            Some(b) => b,
            None => {
                stats.label("refused");
                continue;
            }
        };
        check_consistent(&b, &format!("board fresh from {}", how))?;
        let changed = *b.raw() != raw;
        stats.label_if(changed, "normalised_by_gate");
        stats.label_if(changed && b.raw().ep_source != raw.ep_source, "mark_dropped_by_gate");
        walk(&b, &path, false, &mut |pos| check_consistent(pos, "after a move from a fresh board"))?;
        if changed {
            stats.nontrivial(&(p.rep_key(), how));
        }
    }
    Ok(())
}

fn gen_fresh_case(cur: &mut Cursor) -> Value {
    let (p, src) = crate::gen::raw::gen_raw(cur);
    let n = cur.below(12);
    let path: Vec<u8> = (0..n).map(|_| cur.u8()).collect();
    json!({"raw": crate::gen::raw::raw_to_json(&p, src), "path": path})
}

// ------------------------------------------------------------------------------------------
// metamorphic: transpositions and counters

pub fn gen_transposition_case(cur: &mut Cursor) -> Value {
    let (p, src) = gen_position(cur);
    let sel: Vec<u8> = (0..4).map(|_| cur.u8()).collect();
    let case = json!({"fen": p.fen(), "src": src, "sel": sel, "half2": cur.u16(), "full2": cur.u16()});
    crate::common::with_twin(cur, case)
}

fn transposition_check(case: &Value, stats: &mut Stats) -> CheckResult {
    let (b, r) = match case_board(case, stats)? {
        Some(x) => x,
        None => return Ok(()),
    };
    // counters are ignored by the hash
    let mut r2 = r.clone();
    r2.half = case["half2"].as_u64().unwrap_or(0) as u16;
    r2.full = case["full2"].as_u64().unwrap_or(0) as u16;
    let b2 = Board::try_from(raw_from_ref(&r2)).map_err(|e| Failure::new(format!("same position with other counters refused: {}", e)))?;
    ensure!(b.zobrist_hash() == b2.zobrist_hash(), "hash depends on the counters: {:#x} vs {:#x}", b.zobrist_hash(), b2.zobrist_hash());
    ensure!(b.raw().zobrist_hash() == b2.raw().zobrist_hash(), "raw hash depends on the counters");
    stats.label("counters_changed");
    // two move orders: a x b y  versus  b x a y
    let sel: Vec<u64> = case["sel"].as_array().map(|a| a.iter().map(|x| x.as_u64().unwrap_or(0)).collect()).unwrap_or_default();
    if sel.len() < 4 {
        return Ok(());
    }
    let l0 = r.legal();
    if l0.len() < 2 {
        return Ok(());
    }
    let a = l0[(sel[0] as usize * l0.len()) >> 8];
    let bb = l0[(sel[1] as usize * l0.len()) >> 8];
    if a == bb {
        return Ok(());
    }
    let play = |seq: &[RefMove]| -> Option<RefPos> {
        let mut p = r.clone();
        for m in seq {
            if !p.legal().contains(m) {
                return None;
            }
            p = p.apply(m);
        }
        Some(p)
    };
    let ra = r.apply(&a);
    let lx = ra.legal();
    if lx.is_empty() {
        return Ok(());
    }
    let x = lx[(sel[2] as usize * lx.len()) >> 8];
    let p1 = match play(&[a, x, bb]) {
        Some(p) => p,
        None => return Ok(()),
    };
    let ly = p1.legal();
    if ly.is_empty() {
        return Ok(());
    }
    let y = ly[(sel[3] as usize * ly.len()) >> 8];
    let (f1, f2) = match (play(&[a, x, bb, y]), play(&[bb, x, a, y])) {
        (Some(f1), Some(f2)) => (f1, f2),
        _ => return Ok(()),
    };
    if f1.rep_key() != f2.rep_key() {
        stats.label("orders_reach_different_positions");
        return Ok(());
    }
    let run = |seq: &[RefMove]| -> Result<Board, Failure> {
        let mut cur = b.clone();
        for m in seq {
            let mv = mv_to_lib(m).map_err(Failure::new)?;
            cur = cur.make_move(mv).map_err(|e| Failure::new(format!("legal move {} refused: {}", m.uci(), e)))?;
        }
        Ok(cur)
    };
    let (e1, e2) = (run(&[a, x, bb, y])?, run(&[bb, x, a, y])?);
    ensure!(
        e1.zobrist_hash() == e2.zobrist_hash(),
        "same position reached by two move orders hashes differently: {:#x} ({}) vs {:#x} ({})",
        e1.zobrist_hash(), e1.as_fen(), e2.zobrist_hash(), e2.as_fen()
    );
    ensure!(e1.zobrist_hash() == e1.raw().zobrist_hash(), "incremental hash differs from recomputation after 4 plies");
    stats.label("transposition");
    stats.nontrivial(&(r.rep_key(), a, bb, x, y));
    Ok(())
}

// ------------------------------------------------------------------------------------------
// exhaustive: single-feature differences hash differently

fn key_case_check(case: &Value, stats: &mut Stats) -> CheckResult {
    let base_fen = case["base"].as_str().unwrap_or("8/8/8/8/8/8/8/8 w - - 0 1");
    let base = RawBoard::from_fen(base_fen).map_err(|e| Failure::new(format!("harness: bad base fen: {}", e)))?;
    let kind = case["feature"].as_str().unwrap_or("");
    let (a, b) = (case["a"].as_u64().unwrap_or(0) as usize, case["b"].as_u64().unwrap_or(0) as usize);
    let (mut r1, mut r2) = (base, base);
    match kind {
        "cell" => {
            let sq = Coord::from_index(case["sq"].as_u64().unwrap_or(0) as usize % 64);
            r1.put(sq, Cell::from_index(a % 13));
            r2.put(sq, Cell::from_index(b % 13));
        }
        "side" => {
            r1.side = Color::White;
            r2.side = Color::Black;
        }
        "castling" => {
            r1.castling = CastlingRights::from_index(a % 16);
            r2.castling = CastlingRights::from_index(b % 16);
        }
        "ep" => {
            // only marks that can occur in a valid position: on the rank proper to the side to move
            r1.side = if case["side"].as_str() == Some("b") { Color::Black } else { Color::White };
            r2.side = r1.side;
            r1.ep_source = if a == 64 { None } else { Some(Coord::from_index(a % 64)) };
            r2.ep_source = if b == 64 { None } else { Some(Coord::from_index(b % 64)) };
        }
        _ => fail!("harness: unknown feature"),
    }
    ensure!(r1 != r2, "harness: identical boards");
    let (h1, h2) = (r1.zobrist_hash(), r2.zobrist_hash());
    ensure!(h1 != h2, "boards differing only in {} ({} vs {}) hash equally: {:#x}", kind, a, b, h1);
    stats.nontrivial(&(kind.to_string(), case["sq"].as_u64(), a, b, base_fen.to_string()));
    Ok(())
}

fn key_driver(_ctx: &RunCtx, stats: &mut Stats, rep: &mut Reporter) {
    let bases = ["8/8/8/8/8/8/8/8 w - - 0 1", "r3k2r/p1ppqpb1/bn2pnp1/3PN3/1p2P3/2N2Q1p/PPPBBPPP/R3K2R b Kq - 3 9"];
    let mut cases = Vec::new();
    for base in bases {
        for sq in 0..64 {
            for a in 0..13 {
                for b in (a + 1)..13 {
                    // pawns cannot stand on the first or last rank of a valid position: no claim about such keys
                    let back_rank = sq < 8 || sq >= 56;
                    if back_rank && (a == 1 || a == 7 || b == 1 || b == 7) {
                        continue;
                    }
                    cases.push(json!({"base": base, "feature": "cell", "sq": sq, "a": a, "b": b}));
                }
            }
        }
        cases.push(json!({"base": base, "feature": "side", "a": 0, "b": 1}));
        for a in 0..16 {
            for b in (a + 1)..16 {
                cases.push(json!({"base": base, "feature": "castling", "a": a, "b": b}));
            }
        }
        for (side, first) in [("w", 24u64), ("b", 32u64)] {
            let marks: Vec<u64> = (first..first + 8).chain(std::iter::once(64)).collect();
            for (i, a) in marks.iter().enumerate() {
                for b in marks.iter().skip(i + 1) {
                    cases.push(json!({"base": base, "feature": "ep", "side": side, "a": a, "b": b}));
                }
            }
        }
    }
    let cases = &cases;
    par_chunks(cases.len() as u64, stats, rep, |range, st, fails| {
        for i in range {
            let c = &cases[i as usize];
            if let Err(f) = guarded("C05", "key_distinctness", key_case_check, c, st) {
                if fails.len() < 4 {
                    fails.push((c.clone(), f));
                }
            }
        }
    });
}

pub fn property() -> Property {
    Property {
        id: "C05",
        rule: "histories: valid start positions (20 sources) + byte paths interpreted as nested make/unmake sequences over semilegal and \
               null moves (up to ~120 steps, deeper in thorough); after every move (and, in undo_histories, after every unmake and in \
               every transient illegal position) stored hash == RawBoard::zobrist_hash() and white/black/combined/13 piece sets == sets \
               rebuilt from the squares. fresh_boards: the same invariant on boards fresh from the validation gate and the FEN parser \
               (raw boards that need normalisation included) and after a few moves from them. transpositions: a x b y vs b x a y (reference-legal in both orders, same squares/side/rights/mark) \
               must hash equally; changing only the counters leaves the hash unchanged. key_distinctness (exhaustive): every square x \
               every unordered pair of the 13 cell values (no pawns on back ranks), side, all 120 pairs of rights sets, all pairs of the 9 \
               possible ep marks per side to move, on two base boards: hashes differ. Non-trivial = history with a capture / special move / undo; distinct by (start position, path).",
        assumptions: &["verif::board_all only reads the private combined set", "RawBoard::zobrist_hash is the from-scratch definition of the hash"],
        subchecks: vec![
            SubCheck {
                name: "histories",
                driver: Driver::Generated { gen: gen_walk_case, genome_len: 320, quick: 750_000, thorough: 6_000_000 },
                check: history_check,
                configs: Configs::Both,
                required: &["special_move", "capture", "undo_interleaved", "null_move", "castling_right", "ep_mark"],
                regressions: &[],
                exhaustive: false,
            },
            SubCheck {
                name: "undo_histories",
                driver: Driver::Generated { gen: gen_walk_case, genome_len: 320, quick: 600_000, thorough: 4_800_000 },
                check: undo_history_check,
                configs: Configs::Both,
                required: &["undo_checked", "illegal_rollback"],
                regressions: &[],
                exhaustive: false,
            },
            SubCheck {
                name: "fresh_boards",
                driver: Driver::Generated { gen: gen_fresh_case, genome_len: 288, quick: 1_200_000, thorough: 9_600_000 },
                check: fresh_check,
                configs: Configs::ReleaseOnly,
                required: &["normalised_by_gate", "mark_dropped_by_gate", "refused"],
                regressions: &[],
                exhaustive: false,
            },
            SubCheck {
                name: "transpositions",
                driver: Driver::Generated { gen: gen_transposition_case, genome_len: 200, quick: 1_200_000, thorough: 9_600_000 },
                check: transposition_check,
                configs: Configs::ReleaseOnly,
                required: &["transposition", "counters_changed"],
                regressions: &[],
                exhaustive: false,
            },
            SubCheck {
                name: "key_distinctness",
                driver: Driver::Custom { run: key_driver },
                check: key_case_check,
                configs: Configs::ReleaseOnly,
                required: &[],
                regressions: &[],
                exhaustive: true,
            },
        ],
    }
}
