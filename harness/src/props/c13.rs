//! C13 — a move chain is a faithful, reversible record of the game.

use crate::chainlib::*;
use crate::common::*;
use crate::conv::*;
use crate::engine::*;
use crate::gen::Cursor;
use crate::{ensure, fail};
use owlchess::chain::MoveChain;
use owlchess::types::{DrawReason, Outcome};
use owlchess::Board;
use serde_json::Value;

fn gen_case(cur: &mut Cursor) -> Value {
    gen_history_case(cur, Bias::Mixed, 70)
}

fn check_case(case: &Value, stats: &mut Stats) -> CheckResult {
    let (b, r) = match case_board(case, stats)? {
        Some(x) => x,
        None => return Ok(()),
    };
    let ops = case_ops(case);
    let mut sim = ChainSim::new(&b, &r);
    sim.verify_full()?;
    for (i, op) in ops.iter().enumerate() {
        sim.apply(op, stats).map_err(|f| Failure::new(format!("after op #{} {}: {}", i, op.to_json(), f.msg)))?;
        if matches!(op, Op::Pop | Op::PushList(..) | Op::Clone) {
            sim.verify_full().map_err(|f| Failure::new(format!("after op #{} {}: {}", i, op.to_json(), f.msg)))?;
        }
    }
    sim.verify_full()?;

    // equality: a chain built by another route with equal (start, moves, outcome) compares equal
    let text = sim.chain.uci().to_string();
    let mut other = match MoveChain::from_uci_list(sim.start_board.clone(), &text) {
        Ok(c) => c,
        Err(e) => fail!("from_uci_list(start, {:?}) failed: {}", text, e),
    };
    other.reset_outcome(sim.outcome);
    ensure!(other == sim.chain && sim.chain == other, "chains with equal start, moves and outcome compare unequal");
    ensure!(snapshot(other.last()) == snapshot(sim.chain.last()), "rebuilt chain ends in a different position");
    // and a difference in any of the three makes them unequal
    let mut o2 = other.clone();
    o2.reset_outcome(match sim.outcome {
        Some(Outcome::Draw(DrawReason::Agreement)) => None,
        _ => Some(Outcome::Draw(DrawReason::Agreement)),
    });
    ensure!(o2 != sim.chain, "chains differing in the stored outcome compare equal");
    if other.len() > 0 {
        let mut o3 = other.clone();
        o3.pop();
        o3.reset_outcome(sim.outcome);
        ensure!(o3 != sim.chain, "chains differing in length compare equal");
        // replace the last move by another legal one, if there is one
        let prev = &sim.positions[sim.positions.len() - 2];
        let last = *sim.moves.last().unwrap();
        if let Some(alt) = prev.legal().into_iter().find(|m| *m != last) {
            o3.clear_outcome(); // push requires that no outcome is stored
            o3.push(mv_to_lib(&alt).map_err(Failure::new)?).map_err(|e| Failure::new(format!("alt push refused: {}", e)))?;
            o3.reset_outcome(sim.outcome);
            ensure!(o3 != sim.chain, "chains differing in one move compare equal");
            stats.label("eq_one_move_differs");
        }
    }
    {
        // a start position differing only in a counter
        let mut rs = sim.positions[0].clone();
        rs.full = if rs.full == 7 { 8 } else { 7 };
        if let Ok(b2) = Board::try_from(raw_from_ref(&rs)) {
            if let Ok(mut o4) = MoveChain::from_uci_list(b2, &text) {
                o4.reset_outcome(sim.outcome);
                ensure!(o4 != sim.chain, "chains differing in the start position's move number compare equal");
                stats.label("eq_start_differs");
            }
        }
    }
    stats.label_if(sim.refused > 0, "refused_push_seen");
    stats.label_if(sim.pops > 0, "pop_seen");
    stats.label_if(sim.pops_after_special > 0, "pop_after_special");
    stats.label_if(sim.outcome_ops > 0, "outcome_op");
    stats.label_if(sim.skipped_precondition > 0, "ops_skipped_by_precondition");
    stats.add("ops", ops.len() as u64);
    stats.add("accepted_pushes", sim.accepted as u64);
    if (sim.refused > 0 && sim.pops > 0) || sim.outcome_ops > 0 {
        stats.nontrivial(&(case["fen"].to_string(), case["ops"].to_string()));
    }
    Ok(())
}

/// Two different move orders that reach the same position (same start, same length, same final raw
/// board, same outcome) are different games: the chains must compare unequal.
fn transposition_check(case: &Value, stats: &mut Stats) -> CheckResult {
    use crate::refmodel::*;
    let (b, r) = match case_board(case, stats)? {
        Some(x) => x,
        None => return Ok(()),
    };
    let sel: Vec<u64> = case["sel"].as_array().map(|a| a.iter().map(|x| x.as_u64().unwrap_or(0)).collect()).unwrap_or_default();
    if sel.len() < 4 {
        return Ok(());
    }
    let l0 = r.legal();
    if l0.len() < 2 {
        return Ok(());
    }
    let a = l0[(sel[0] as usize * l0.len()) >> 8];
    let bb = l0[(sel[1] as usize * l0.len()) >> 8];
    if a == bb {
        return Ok(());
    }
    let play = |seq: &[RefMove]| -> Option<RefPos> {
        let mut p = r.clone();
        for m in seq {
            if !p.legal().contains(m) {
                return None;
            }
            p = p.apply(m);
        }
        Some(p)
    };
    let lx = r.apply(&a).legal();
    if lx.is_empty() {
        return Ok(());
    }
    let x = lx[(sel[2] as usize * lx.len()) >> 8];
    let p1 = match play(&[a, x, bb]) {
        Some(p) => p,
        None => return Ok(()),
    };
    let ly = p1.legal();
    if ly.is_empty() {
        return Ok(());
    }
    let y = ly[(sel[3] as usize * ly.len()) >> 8];
    let (f1, f2) = match (play(&[a, x, bb, y]), play(&[bb, x, a, y])) {
        (Some(f1), Some(f2)) => (f1, f2),
        _ => return Ok(()),
    };
    if f1 != f2 {
        return Ok(()); // includes the counters: the raw boards must be identical
    }
    let build = |seq: &[RefMove]| -> Result<MoveChain, Failure> {
        let mut c = MoveChain::new(b.clone());
        for m in seq {
            c.push(mv_to_lib(m).map_err(Failure::new)?).map_err(|e| Failure::new(format!("legal move {} refused: {}", m.uci(), e)))?;
        }
        Ok(c)
    };
    let (c1, c2) = (build(&[a, x, bb, y])?, build(&[bb, x, a, y])?);
    ensure!(c1.last() == c2.last(), "harness: transposition does not reach the same position");
    ensure!(c1 != c2 && c2 != c1, "two chains with different move lists ({} {} {} {} vs {} {} {} {}) compare equal", a.uci(), x.uci(), bb.uci(), y.uci(), bb.uci(), x.uci(), a.uci(), y.uci());
    let c1b = build(&[a, x, bb, y])?;
    ensure!(c1 == c1b, "two chains with the same start, moves and outcome compare unequal");
    stats.label("transposed_pair");
    stats.nontrivial(&(r.rep_key(), a, bb, x, y));
    Ok(())
}

/// A chain against every proper prefix of itself, on start positions whose counters no longer move (both at
/// u16::MAX, where they saturate): after a reversible four-ply cycle the prefix and the whole chain end in an
/// *identical* position, so only the move lists tell them apart. `case` = position case + {"cnt", "cycles"}.
fn prefix_check(case: &Value, stats: &mut Stats) -> CheckResult {
    let (_, mut r) = match case_board(case, stats)? {
        Some(x) => x,
        None => return Ok(()),
    };
    match case["cnt"].as_u64().unwrap_or(0) {
        0 => {
            r.half = u16::MAX;
            r.full = u16::MAX;
        }
        1 => r.full = u16::MAX,
        2 => r.half = u16::MAX,
        _ => {}
    }
    r.ep = None; // a pending mark cannot recur
    let b = match Board::try_from(raw_from_ref(&r)) {
        Ok(b) => b,
        Err(_) => {
            stats.skip("gate_rejected_position_with_changed_counters");
            return Ok(());
        }
    };
    // the moves: a reversible cycle repeated, or (where the position has none) a short playout
    let moves: Vec<crate::refmodel::RefMove> = match any_cycle(&r) {
        Some(c) => {
            let n = 4 * (1 + case["cycles"].as_u64().unwrap_or(0) as usize % 3);
            (0..n).map(|i| c[i % 4]).collect()
        }
        None => {
            stats.label("no_reversible_cycle:playout_instead");
            let mut v = Vec::new();
            let mut p = r.clone();
            for i in 0..6usize {
                let l = p.legal();
                if l.is_empty() {
                    break;
                }
                let m = l[(case["cycles"].as_u64().unwrap_or(0) as usize + i * 7) % l.len()];
                p = p.apply(&m);
                v.push(m);
            }
            v
        }
    };
    let n = moves.len();
    let build = |len: usize| -> Result<MoveChain, Failure> {
        let mut c = MoveChain::new(b.clone());
        for m in &moves[..len] {
            c.push(mv_to_lib(m).map_err(Failure::new)?).map_err(|e| Failure::new(format!("legal move {} refused: {}", m.uci(), e)))?;
        }
        Ok(c)
    };
    let whole = build(n)?;
    let again = build(n)?;
    ensure!(whole == again && again == whole, "two chains with the same start, moves and outcome compare unequal");
    let mut by_pop = whole.clone();
    for k in (0..n).rev() {
        by_pop.pop();
        let prefix = build(k)?;
        ensure!(prefix == by_pop && by_pop == prefix, "a chain popped back to {} moves and a chain built with those {} moves compare unequal", k, k);
        let same_end = prefix.last().raw() == whole.last().raw();
        for (x, how) in [(&prefix, "built"), (&by_pop, "popped")] {
            ensure!(*x != whole && whole != *x, "a chain of {} moves and its prefix of {} moves ({}) compare equal (final positions {})", n, k, how,
                if same_end { "identical, counters included" } else { "different" });
        }
        if same_end {
            stats.label("prefix_with_identical_final_position");
            stats.nontrivial(&(r.rep_key(), n, k));
        }
    }
    Ok(())
}

/// Four quiet non-pawn moves a, x, a-back, x-back (kings and rooks included, as long as no right is lost) that
/// return to the same position.
fn any_cycle(r: &crate::refmodel::RefPos) -> Option<[crate::refmodel::RefMove; 4]> {
    use crate::refmodel::*;
    let quiet = |p: &RefPos| -> Vec<RefMove> { p.legal().into_iter().filter(|m| m.kind == Kind::Simple && m.man.1 != Pc::P && !p.is_capture(m)).collect() };
    for a in quiet(r) {
        let p1 = r.apply(&a);
        for x in quiet(&p1) {
            let p2 = p1.apply(&x);
            let ab = RefMove { kind: Kind::Simple, man: a.man, from: a.to, to: a.from };
            if !p2.legal().contains(&ab) {
                continue;
            }
            let p3 = p2.apply(&ab);
            let xb = RefMove { kind: Kind::Simple, man: x.man, from: x.to, to: x.from };
            if !p3.legal().contains(&xb) {
                continue;
            }
            if p3.apply(&xb).rep_key() == r.rep_key() {
                return Some([a, x, ab, xb]);
            }
        }
    }
    None
}

fn gen_prefix_case(cur: &mut Cursor) -> Value {
    let mut case = gen_pos_case(cur);
    case["cnt"] = Value::from(cur.below(6));
    case["cycles"] = Value::from(cur.below(3));
    case
}

pub fn property() -> Property {
    Property {
        id: "C13",
        rule: "Model-based histories: start positions (initial, sparse, playout, castle family, all sources) and up to 70 generated operations \
               (push of a legal move through six routes: Move, Uci string, San string, uci::Move, san::Move, push_uci_list; push of illegal \
               / king-exposing / null / garbage values; push_uci_list with a bad token; pop; set/reset/clear outcome; set_auto_outcome with \
               each filter; clone), arguments resolved against the current model state. Model = (start, list of accepted moves, outcome) \
               with positions from the reference apply(). After every op: len, last move, startpos, stored outcome, current position \
               (raw + internal consistency) equal the model; refused pushes change nothing; pop returns the latest accepted move and clears \
               the outcome; after pops/lists/clones and at the end the whole move list and a replay through Board::make_move are compared \
               in full. Equality: a chain rebuilt from the UCI text compares equal; changing the outcome, the length, one move or the \
               start position's move number makes it unequal; equality_transpositions: two move orders a x b y / b x a y reaching an identical position (same start, length, outcome) must compare unequal; equality_prefixes: a chain of 4-12 cycle moves against every proper prefix of itself (built and popped), on starts whose counters are saturated so that prefix and chain end in identical positions. push/set_outcome/set_auto_outcome are issued only while no outcome is \
               stored (documented precondition). Non-trivial = history with (a refused push and a pop) or an outcome op; distinct by case.",
        assumptions: &["reference apply() and legal(); push / set_outcome / set_auto_outcome respect the documented 'outcome must be unset' precondition"],
        subchecks: vec![SubCheck {
            name: "chain_histories",
            driver: Driver::Generated { gen: gen_case, genome_len: 512, quick: 450_000, thorough: 3_600_000 },
            check: check_case,
            configs: Configs::Both,
            required: &[
                "refused_push_seen", "pop_seen", "pop_after_special", "outcome_op", "pop_clears_outcome", "refused_null", "refused_garbage",
                "uci_list_bad_token", "via_san_str", "via_uci_value", "via_san_value", "eq_one_move_differs", "eq_start_differs", "clone",
                "refused_king_left_attacked", "pop_on_empty", "null_round_trip",
            ],
            regressions: &[],
            exhaustive: false,
        },
        SubCheck {
            name: "long_chain",
            driver: Driver::Custom { run: long_chain_run },
            check: long_chain_check,
            configs: Configs::Both,
            required: &["long_chain"],
            regressions: &[],
            exhaustive: false,
        },
        SubCheck {
            name: "equality_transpositions",
            driver: Driver::Generated { gen: crate::props::c05::gen_transposition_case, genome_len: 200, quick: 600_000, thorough: 4_800_000 },
            check: transposition_check,
            configs: Configs::ReleaseOnly,
            required: &["transposed_pair"],
            regressions: &[],
            exhaustive: false,
        },
        SubCheck {
            name: "equality_prefixes",
            driver: Driver::Generated { gen: gen_prefix_case, genome_len: 200, quick: 150_000, thorough: 1_200_000 },
            check: prefix_check,
            configs: Configs::ReleaseOnly,
            required: &["prefix_with_identical_final_position"],
            regressions: &[],
            exhaustive: false,
        }],
    }
}

fn long_chain_run(ctx: &RunCtx, stats: &mut Stats, rep: &mut Reporter) {
    long_chain_driver("C13")(ctx, stats, rep)
}
