//! C04 — undoing a move restores the position exactly.

use crate::common::*;
use crate::conv::*;
use crate::engine::*;
use crate::refmodel::*;
use crate::{ensure, fail};
use owlchess::movegen::semilegal;
use owlchess::moves::make::{TryUnchecked, Unchecked};
use owlchess::moves::{make_move_unchecked, unmake_move_unchecked};
use owlchess::{Board, Make, Move, MoveChain};
use serde_json::Value;

pub fn check_position(b: &Board, r: &RefPos, stats: &mut Stats) -> CheckResult {
    let s_ref = r.pseudo_legal();
    let l_ref = r.legal();
    let before = snapshot(b);
    let mut cur = b.clone();
    let mut moves: Vec<Move> = semilegal::gen_all(b).iter().copied().filter(|m| mv_from_lib(m).map_or(false, |x| s_ref.contains(&x))).collect();
    moves.push(Move::NULL);
    let mut interesting = false;
    for mv in &moves {
        let is_null = *mv == Move::NULL;
        let legal = !is_null && l_ref.contains(&mv_from_lib(mv).unwrap());
        // raw unchecked pair
        let u = unsafe { make_move_unchecked(&mut cur, *mv) };
        if is_null {
            ensure!(cur.side() != b.side(), "null move did not flip the side to move");
        }
        unsafe { unmake_move_unchecked(&mut cur, *mv, u) };
        let after = snapshot(&cur);
        if after != before {
            fail!("make_move_unchecked + unmake_move_unchecked of {} does not restore: {}", mv_desc(mv), snap_diff(&after, &before));
        }
        if is_null {
            stats.label("null_move");
            continue;
        }
        // safe interface: Move::make_raw
        match mv.make_raw(&mut cur) {
            Ok((m2, u)) => {
                ensure!(legal, "Move::make_raw accepted the illegal move {}", mv_desc(mv));
                ensure!(m2 == *mv, "make_raw returned another move");
                unsafe { unmake_move_unchecked(&mut cur, m2, u) };
            }
            Err(_) => {
                ensure!(!legal, "Move::make_raw refused the legal move {}", mv_desc(mv));
                stats.label("illegal_semilegal_rollback");
                interesting = true;
            }
        }
        let after = snapshot(&cur);
        if after != before {
            fail!("Move::make_raw (+undo) of {} does not leave the position as it was: {}", mv_desc(mv), snap_diff(&after, &before));
        }
        // TryUnchecked::make_raw
        match unsafe { TryUnchecked::new(*mv) }.make_raw(&mut cur) {
            Ok((m2, u)) => {
                ensure!(legal, "TryUnchecked::make_raw accepted the illegal move {}", mv_desc(mv));
                unsafe { unmake_move_unchecked(&mut cur, m2, u) };
            }
            Err(_) => ensure!(!legal, "TryUnchecked::make_raw refused the legal move {}", mv_desc(mv)),
        }
        let after = snapshot(&cur);
        if after != before {
            fail!("TryUnchecked::make_raw (+undo) of {} does not leave the position as it was: {}", mv_desc(mv), snap_diff(&after, &before));
        }
        if legal {
            let (m2, u) = unsafe { Unchecked::new(*mv) }.make_raw(&mut cur).unwrap();
            unsafe { unmake_move_unchecked(&mut cur, m2, u) };
            let after = snapshot(&cur);
            if after != before {
                fail!("Unchecked::make_raw + undo of {} does not restore: {}", mv_desc(mv), snap_diff(&after, &before));
            }
        }
        let k = mv.kind();
        if k != owlchess::MoveKind::Simple {
            interesting = true;
            stats.label(match k {
                owlchess::MoveKind::CastlingKingside | owlchess::MoveKind::CastlingQueenside => "castling",
                owlchess::MoveKind::PawnDouble => "double_step",
                owlchess::MoveKind::Enpassant => "en_passant",
                _ => "promotion",
            });
        }
        if b.get(mv.dst()) != owlchess::Cell::EMPTY {
            interesting = true;
            stats.label_if(k.promote().is_some(), "promotion_capture");
        }
    }
    pos_features(r, stats);
    stats.label_if(r.full == 65535 || r.half == 65535, "counter_at_max");
    if interesting {
        stats.nontrivial(&(r.rep_key(), r.half, r.full));
    }
    Ok(())
}

fn check_case(case: &Value, stats: &mut Stats) -> CheckResult {
    match case_board(case, stats)? {
        Some((b, r)) => check_position(&b, &r, stats),
        None => Ok(()),
    }
}

/// Nested sequences: raw make/unmake DFS, and the same path through MoveChain push/pop and Walker.
fn nested_check(case: &Value, stats: &mut Stats) -> CheckResult {
    let (b, r) = match case_board(case, stats)? {
        Some(x) => x,
        None => return Ok(()),
    };
    let path = case_path(case);
    let rep = walk(&b, &path, true, &mut |_| Ok(()))?;
    // move chain: push legal moves / pop, comparing with snapshots
    let mut chain = MoveChain::new(b.clone());
    let mut snaps: Vec<Snapshot> = vec![snapshot(chain.last())];
    for &byte in &path {
        if byte < 80 && chain.len() > 0 {
            let popped = chain.pop();
            ensure!(popped.is_some(), "pop on a non-empty chain returned None");
            snaps.pop();
            let now = snapshot(chain.last());
            if &now != snaps.last().unwrap() {
                fail!("MoveChain::pop of {} did not restore the position: {}", mv_desc(&popped.unwrap()), snap_diff(&now, snaps.last().unwrap()));
            }
            stats.label("chain_pop");
            continue;
        }
        if byte >= 236 && !chain.last().is_check() {
            // a null move that stays in the chain (documented for push_unchecked: allowed when the king is not in check)
            unsafe { chain.push_unchecked(owlchess::Move::NULL) };
            snaps.push(snapshot(chain.last()));
            stats.label("chain_null_move_kept");
            continue;
        }
        let ms = semilegal::gen_all(chain.last());
        if ms.is_empty() {
            continue;
        }
        let mv = ms[(byte as usize * ms.len()) >> 8];
        let before = snapshot(chain.last());
        match chain.push(mv) {
            Ok(()) => snaps.push(snapshot(chain.last())),
            Err(_) => {
                let now = snapshot(chain.last());
                if now != before {
                    fail!("refused MoveChain::push of {} changed the position: {}", mv_desc(&mv), snap_diff(&now, &before));
                }
                stats.label("chain_refused_push");
            }
        }
    }
    // walker over the final chain: forwards, backwards, forwards; chain must be untouched
    let final_snap = snapshot(chain.last());
    {
        let mut w = chain.walk();
        let mut i = 0;
        while let Some((pos, _)) = w.next() {
            if snapshot(pos) != snaps[i] {
                fail!("Walker::next position {} differs from the position recorded when it was played: {}", i, snap_diff(&snapshot(pos), &snaps[i]));
            }
            i += 1;
        }
        while let Some((pos, _)) = w.prev() {
            i -= 1;
            if snapshot(pos) != snaps[i] {
                fail!("Walker::prev position {} differs: {}", i, snap_diff(&snapshot(pos), &snaps[i]));
            }
        }
    }
    ensure!(snapshot(chain.last()) == final_snap, "walking changed the chain's position");
    while chain.pop().is_some() {}
    let now = snapshot(chain.last());
    if now != snapshot(&b) {
        fail!("popping everything does not restore the start position: {}", snap_diff(&now, &snapshot(&b)));
    }
    stats.label_if(rep.illegal_rollbacks > 0, "illegal_rollback");
    stats.label_if(rep.nulls > 0, "null_move");
    stats.label_if(rep.specials > 0, "special_move");
    stats.label_if(rep.max_depth >= 2, "depth>=2");
    stats.label_if(rep.max_depth >= 6, "depth>=6");
    stats.add("raw_pushes", rep.pushes as u64);
    stats.add("raw_pops", rep.pops as u64);
    if rep.max_depth >= 2 {
        stats.nontrivial(&(r.rep_key(), path));
    }
    Ok(())
}

pub fn property() -> Property {
    Property {
        id: "C04",
        rule: "Invariant over full snapshots (raw fields, Zobrist hash, white/black/combined sets via hook, 13 piece sets). \
               single_moves: valid positions x every semilegal move and the null move through make_move_unchecked/unmake_move_unchecked, \
               Move::make_raw, TryUnchecked::make_raw, Unchecked::make_raw: snapshot before == snapshot after undo (or after refusal). \
               nested: byte-path-driven properly nested make/unmake DFS (depth up to ~120, with illegal-move rollbacks and null moves), \
               the same path through MoveChain push/pop, and a Walker pass forwards and backwards. long_chain: nesting depth beyond 2^16 \
               (chains of 65,541-70,003 plies walked from both ends and popped completely). Non-trivial = position with a special \
               move, capture or illegal-semilegal rollback (single), nesting depth >= 2 (nested); distinct by position (+ path).",
        assumptions: &["the hook verif::board_all only reads the private combined set"],
        subchecks: vec![
            SubCheck {
                name: "single_moves",
                driver: Driver::Generated { gen: gen_pos_case, genome_len: 192, quick: 1_800_000, thorough: 14_400_000 },
                check: check_case,
                configs: Configs::Both,
                required: &["castling", "en_passant", "promotion", "promotion_capture", "double_step", "illegal_semilegal_rollback", "null_move", "counter_at_max"],
                regressions: &[
                    r#"{"fen":"7k/8/8/8/8/8/8/K7 b - - 65535 65535","src":"regression_D3"}"#,
                ],
                exhaustive: false,
            },
            SubCheck {
                name: "nested",
                driver: Driver::Generated { gen: gen_walk_case, genome_len: 320, quick: 600_000, thorough: 4_800_000 },
                check: nested_check,
                configs: Configs::Both,
                required: &["illegal_rollback", "null_move", "special_move", "depth>=6", "chain_pop", "chain_refused_push", "chain_null_move_kept"],
                regressions: &[],
                exhaustive: false,
            },
            SubCheck {
                name: "long_chain",
                driver: Driver::Custom { run: long_chain_run },
                check: crate::chainlib::long_chain_check,
                configs: Configs::Both,
                required: &["long_chain"],
                regressions: &[],
                exhaustive: false,
            },
        ],
    }
}

fn long_chain_run(ctx: &RunCtx, stats: &mut Stats, rep: &mut Reporter) {
    crate::chainlib::long_chain_driver("C04")(ctx, stats, rep)
}
