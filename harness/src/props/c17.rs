//! C17 — walking and printing a chain reproduce the game.

use crate::chainlib::*;
use crate::common::*;
use crate::conv::*;
use crate::engine::*;
use crate::gen::Cursor;
use crate::refmodel::*;
use crate::{ensure, fail};
use owlchess::chain::{GameStatusPolicy, MoveChain, NumberPolicy};
use owlchess::moves::Style;
use owlchess::types::{Color, Outcome};
use serde_json::{json, Value};

fn gen_case(cur: &mut Cursor) -> Value {
    let mut c = gen_history_case(cur, Bias::Play, 40);
    // final stored outcome, walker script, print options
    let outcome = match cur.below(4) {
        0 => Value::Null,
        1 => json!("auto"),
        _ => json!(cur.below(22)),
    };
    let n = 4 + cur.below(60);
    let walk: Vec<u8> = (0..n).map(|_| cur.u8()).collect();
    // any start number for which start + game length still fits in usize is fair game
    let custom = match cur.below(8) {
        0 => 0u64,
        1 => 1,
        2 => cur.u16() as u64,
        3 => u32::MAX as u64,
        4 => (1u64 << 63) - 1 + cur.below(3) as u64,
        5 => u64::MAX - 70_000 - cur.u16() as u64,
        6 => cur.u64() >> cur.below(40),
        _ => cur.below(200) as u64,
    };
    c["final_outcome"] = outcome;
    c["walk"] = json!(walk);
    c["custom_number"] = json!(custom);
    // start move numbers incl. large ones
    c
}

fn status_token(o: &Option<Outcome>) -> &'static str {
    match o {
        None => "*",
        Some(Outcome::Win { side: Color::White, .. }) => "1-0",
        Some(Outcome::Win { side: Color::Black, .. }) => "0-1",
        Some(Outcome::Draw(_)) => "1/2-1/2",
    }
}

fn check_case(case: &Value, stats: &mut Stats) -> CheckResult {
    let (b, r) = match case_board(case, stats)? {
        Some(x) => x,
        None => return Ok(()),
    };
    let ops = case_ops(case);
    let mut sim = ChainSim::new(&b, &r);
    for (i, op) in ops.iter().enumerate() {
        sim.apply(op, stats).map_err(|f| Failure::new(format!("after op #{} {}: {}", i, op.to_json(), f.msg)))?;
    }
    // final outcome
    sim.chain.clear_outcome();
    sim.outcome = None;
    match &case["final_outcome"] {
        Value::String(_) => {
            sim.outcome = sim.chain.set_auto_outcome(owlchess::types::OutcomeFilter::Relaxed);
        }
        Value::Number(n) => {
            let o = all_outcomes()[n.as_u64().unwrap_or(0) as usize % 22];
            sim.chain.set_outcome(o);
            sim.outcome = Some(o);
        }
        _ => {}
    }
    let boards = sim.verify_full()?;
    let n = sim.moves.len();
    let before = sim.chain.clone();
    let before_snap = snapshot(sim.chain.last());

    // ---- walker ----
    let walk: Vec<u8> = case["walk"].as_array().map(|a| a.iter().map(|x| x.as_u64().unwrap_or(0) as u8).collect()).unwrap_or_default();
    {
        let mut w = sim.chain.walk();
        let mut pos = 0usize;
        let mut last_dir = 0i8;
        let mut dir_change_after_jump = false;
        let mut jumped = false;
        ensure!(w.len() == n && w.is_empty() == (n == 0) && w.pos() == 0, "fresh walker: len {}, pos {}", w.len(), w.pos());
        for &byte in &walk {
            match byte % 8 {
                0..=2 => {
                    let got = w.next().map(|(bd, m)| (snapshot(bd), m));
                    if pos == n {
                        ensure!(got.is_none(), "Walker::next at the end returned a move");
                    } else {
                        let (snap, m) = match got {
                            Some(x) => x,
                            None => fail!("Walker::next returned None at position {} of {}", pos, n),
                        };
                        ensure!(mv_from_lib(&m) == Some(sim.moves[pos]), "Walker::next returned move {} at index {}, game has {}", mv_desc(&m), pos, sim.moves[pos].uci());
                        if snap != snapshot(&boards[pos]) {
                            fail!("Walker::next at index {}: position differs from the one that preceded the move: {}", pos, snap_diff(&snap, &snapshot(&boards[pos])));
                        }
                        pos += 1;
                        if jumped && last_dir == -1 {
                            dir_change_after_jump = true;
                        }
                        last_dir = 1;
                    }
                }
                3..=5 => {
                    let got = w.prev().map(|(bd, m)| (snapshot(bd), m));
                    if pos == 0 {
                        ensure!(got.is_none(), "Walker::prev at the start returned a move");
                    } else {
                        pos -= 1;
                        let (snap, m) = match got {
                            Some(x) => x,
                            None => fail!("Walker::prev returned None at position {}", pos + 1),
                        };
                        ensure!(mv_from_lib(&m) == Some(sim.moves[pos]), "Walker::prev returned move {} at index {}, game has {}", mv_desc(&m), pos, sim.moves[pos].uci());
                        if snap != snapshot(&boards[pos]) {
                            fail!("Walker::prev at index {}: position differs from the one that preceded the move: {}", pos, snap_diff(&snap, &snapshot(&boards[pos])));
                        }
                        if jumped && last_dir == 1 {
                            dir_change_after_jump = true;
                        }
                        last_dir = -1;
                    }
                }
                6 => {
                    w.start();
                    pos = 0;
                    jumped = true;
                    stats.label("walker_start");
                }
                _ => {
                    w.end();
                    pos = n;
                    jumped = true;
                    stats.label("walker_end");
                }
            }
            ensure!(w.pos() == pos && w.len() == n, "Walker::pos() = {} but the cursor model says {}", w.pos(), pos);
        }
        stats.label_if(dir_change_after_jump, "direction_change_after_jump");
        if dir_change_after_jump {
            stats.nontrivial(&(case["fen"].to_string(), case["ops"].to_string(), walk.clone()));
        }
    }
    ensure!(sim.chain == before, "walking changed the chain (==)");
    ensure!(snapshot(sim.chain.last()) == before_snap, "walking changed the chain's current position");

    // ---- UCI list ----
    let text = sim.chain.uci().to_string();
    let want_text: Vec<String> = sim.moves.iter().map(|m| m.uci()).collect();
    ensure!(text == want_text.join(" "), "uci() text {:?}, game is {:?}", text, want_text.join(" "));
    match MoveChain::from_uci_list(sim.start_board.clone(), &text) {
        Ok(mut c) => {
            ensure!(c.outcome().is_none(), "from_uci_list stored an outcome");
            c.reset_outcome(sim.outcome);
            ensure!(c == sim.chain, "chain rebuilt from its UCI list differs");
            ensure!(snapshot(c.last()) == before_snap, "chain rebuilt from its UCI list ends elsewhere");
        }
        Err(e) => fail!("from_uci_list(start, {:?}) failed: {}", text, e),
    }

    // ---- styled list ----
    let custom = case["custom_number"].as_u64().unwrap_or(1) as usize;
    let start_side = sim.positions[0].side;
    let start_num = sim.positions[0].full as usize;
    // per-move tokens from the reference writers (computed once), not from the library
    let mut tok_san: Vec<String> = Vec::with_capacity(n);
    let mut tok_utf8: Vec<String> = Vec::with_capacity(n);
    let mut tok_uci: Vec<String> = Vec::with_capacity(n);
    for i in 0..n {
        let legal = sim.positions[i].legal();
        let t = sim.positions[i].san(&sim.moves[i], &legal);
        tok_utf8.push(crate::props::c09::utf8_render(&sim.positions[i], &sim.moves[i], &t));
        tok_san.push(t);
        tok_uci.push(sim.moves[i].uci());
    }
    for (nums, nname) in [(NumberPolicy::Omit, "omit"), (NumberPolicy::FromBoard, "from_board"), (NumberPolicy::Custom(custom), "custom")] {
        for (style, sname) in [(Style::San, "san"), (Style::SanUtf8, "utf8"), (Style::Uci, "uci")] {
            for (status, show) in [(GameStatusPolicy::Show, true), (GameStatusPolicy::Hide, false)] {
                let got = sim.chain.styled(nums, style, status).to_string();
                // independent assembly
                let first = match nums {
                    NumberPolicy::Omit => None,
                    NumberPolicy::FromBoard => Some(start_num),
                    NumberPolicy::Custom(c) => Some(c),
                };
                let mut toks: Vec<String> = Vec::new();
                for i in 0..n {
                    let side = sim.positions[i].side;
                    if let Some(f0) = first {
                        let num = sim.positions[i].full as usize - start_num + f0;
                        if side == Col::W {
                            toks.push(format!("{}.", num));
                        } else if i == 0 {
                            toks.push(format!("{}...", num));
                        }
                    }
                    toks.push(match style {
                        Style::Uci => tok_uci[i].clone(),
                        Style::San => tok_san[i].clone(),
                        Style::SanUtf8 => tok_utf8[i].clone(),
                    });
                }
                if show {
                    toks.push(status_token(&sim.outcome).to_string());
                }
                let want = toks.join(" ");
                ensure!(got == want, "styled({}, {}, show={}) = {:?}, expected {:?}", nname, sname, show, got, want);
            }
        }
    }
    let _ = start_side;
    stats.label_if(sim.positions[0].side == Col::B && n > 0, "black_starts");
    stats.label_if(n == 0, "empty_chain");
    stats.label_if(sim.outcome.is_some(), "outcome_stored");
    stats.label_if(sim.positions[0].full >= 65534 && n > 1, "move_number_at_limit");
    stats.label_if(n >= 10, "ten_or_more_moves");
    stats.add("moves_in_chain", n as u64);
    if sim.positions[0].side == Col::B && n > 0 {
        stats.nontrivial(&(case["fen"].to_string(), case["ops"].to_string(), "black"));
    }
    Ok(())
}

/// Chains that contain null moves (valid chain content through `push_unchecked` while the mover is not in check):
/// the walker must hand out every move with the position the chain itself was in when the move was pushed, in any
/// order of steps, and printing must not fail. The expected positions are the ones *recorded from the chain at push
/// time* (what a null move does to the clocks is not specified, so no model is consulted for them).
/// `case` = position case + {"plan": bytes, "walk": bytes}.
fn null_walk_check(case: &Value, stats: &mut Stats) -> CheckResult {
    use owlchess::moves::Move;
    let (b, _) = match case_board(case, stats)? {
        Some(x) => x,
        None => return Ok(()),
    };
    let bytes = |k: &str| -> Vec<u8> { case[k].as_array().map(|a| a.iter().map(|x| x.as_u64().unwrap_or(0) as u8).collect()).unwrap_or_default() };
    let mut chain = MoveChain::new(b);
    let mut before: Vec<crate::common::Snapshot> = Vec::new();
    let mut moves: Vec<Move> = Vec::new();
    let mut nulls = 0;
    for byte in bytes("plan") {
        let cur = chain.last().clone();
        if byte % 3 == 0 && !cur.is_check() {
            before.push(snapshot(&cur));
            unsafe { chain.push_unchecked(Move::NULL) };
            moves.push(Move::NULL);
            nulls += 1;
        } else {
            let l = owlchess::movegen::legal::gen_all(&cur);
            if l.is_empty() {
                break;
            }
            let m = l[(byte as usize / 3) % l.len()];
            before.push(snapshot(&cur));
            chain.push(m).map_err(|e| Failure::new(format!("legal move {} refused: {}", mv_desc(&m), e)))?;
            moves.push(m);
        }
    }
    let n = moves.len();
    ensure!(chain.len() == n, "chain.len() = {} after {} pushes", chain.len(), n);
    let copy = chain.clone();
    let end = snapshot(chain.last());
    {
        let mut w = chain.walk();
        let mut pos = 0usize;
        let mut forward_over_null = false;
        for byte in bytes("walk") {
            match byte % 8 {
                0..=2 => {
                    let got = w.next().map(|(bd, m)| (snapshot(bd), m));
                    if pos == n {
                        ensure!(got.is_none(), "Walker::next at the end returned a move");
                    } else {
                        let (snap, m) = got.ok_or_else(|| Failure::new(format!("Walker::next returned None at index {} of {}", pos, n)))?;
                        ensure!(m == moves[pos], "Walker::next returned {} at index {}, the chain has {}", mv_desc(&m), pos, mv_desc(&moves[pos]));
                        ensure!(snap == before[pos], "Walker::next at index {}: position differs from the one the move was pushed in: {}", pos, snap_diff(&snap, &before[pos]));
                        if pos > 0 && moves[pos - 1] == Move::NULL {
                            forward_over_null = true;
                        }
                        pos += 1;
                    }
                }
                3..=5 => {
                    let got = w.prev().map(|(bd, m)| (snapshot(bd), m));
                    if pos == 0 {
                        ensure!(got.is_none(), "Walker::prev at the start returned a move");
                    } else {
                        pos -= 1;
                        let (snap, m) = got.ok_or_else(|| Failure::new(format!("Walker::prev returned None at index {}", pos)))?;
                        ensure!(m == moves[pos], "Walker::prev returned {} at index {}, the chain has {}", mv_desc(&m), pos, mv_desc(&moves[pos]));
                        ensure!(snap == before[pos], "Walker::prev at index {}: position differs from the one the move was pushed in: {}", pos, snap_diff(&snap, &before[pos]));
                    }
                }
                6 => {
                    w.start();
                    pos = 0;
                }
                _ => {
                    w.end();
                    pos = n;
                }
            }
            ensure!(w.pos() == pos && w.len() == n, "Walker::pos() = {} but the cursor model says {}", w.pos(), pos);
        }
        if forward_over_null {
            stats.label("walked_forward_over_a_null_move");
        }
    }
    ensure!(chain == copy && snapshot(chain.last()) == end, "walking changed the chain");
    // printing: the coordinate styles are defined for every chain content (SAN of a null move is not)
    let text = chain.uci().to_string();
    let toks: Vec<&str> = text.split_whitespace().collect();
    ensure!(toks.len() == n, "uci() text {:?} has {} tokens, the chain has {} moves", text, toks.len(), n);
    for (i, t) in toks.iter().enumerate() {
        ensure!(*t == moves[i].uci().to_string(), "uci() token #{} is {:?}, the move prints as {:?}", i, t, moves[i].uci().to_string());
    }
    let styled = chain.styled(NumberPolicy::Omit, Style::Uci, GameStatusPolicy::Show).to_string();
    let want = if n == 0 { "*".to_string() } else { format!("{} *", text) };
    ensure!(styled == want, "styled(omit, uci, show) = {:?}, expected {:?}", styled, want);
    stats.label_if(nulls > 0, "chain_with_null_move");
    if nulls > 0 && n > nulls {
        stats.nontrivial(&(case["fen"].to_string(), case["plan"].to_string(), case["walk"].to_string()));
    }
    Ok(())
}

fn gen_null_walk_case(cur: &mut Cursor) -> Value {
    let mut c = gen_pos_case(cur);
    let n = 1 + cur.below(12);
    c["plan"] = json!((0..n).map(|_| cur.u8()).collect::<Vec<u8>>());
    let k = 4 + cur.below(40);
    c["walk"] = json!((0..k).map(|_| cur.u8()).collect::<Vec<u8>>());
    c
}

pub fn property() -> Property {
    Property {
        id: "C17",
        rule: "Chains built by model-based histories (mostly accepted pushes through six routes, pops, both colours to start, start move \
               numbers incl. 65534/65535) with a stored outcome (none / automatic / any of the 22 values); then a generated walker script \
               over next/prev/start/end with a cursor model: every returned (position, move) equals (positions[i], moves[i]) of an \
               independent replay through Board::make_move, compared as full snapshots (hash and all sets), pos()/len() equal the model, \
               and the chain is untouched (== its clone, same current snapshot). uci() text equals the reference coordinate texts and \
               from_uci_list(start, text) rebuilds an equal chain. styled() for 3 number policies (custom numbers up to 2^32) x 3 styles x \
               2 status policies equals a string assembled independently (N. before White's moves, N... if Black starts, numbers \
               continuing from the start/custom number, final 1-0|0-1|1/2-1/2|* iff Show; per-move tokens from the reference SAN / coordinate writers). Non-trivial = walker script with a direction change after a jump, or a chain \
               that starts with Black; distinct by case. long_chain: three chains of 65,541-70,003 plies (more than 16 bits of plies) \
               built from a reversible 4-ply cycle: walker from both ends across the 2^16 boundary and a full forward pass against the \
               model, UCI text, and popping everything. walk_with_null_moves: chains of 1-12 legal and null moves (null through push_unchecked \
               while not in check), walker script against the positions recorded from the chain at push time, chain untouched, uci() and \
               styled(omit, uci, show) token by token.",
        assumptions: &["NumberPolicy::Custom(n) is generated over the whole range for which n + game length fits in usize (including values around 2^63 and near usize::MAX); beyond that usize arithmetic itself overflows and no property speaks about it"],
        subchecks: vec![SubCheck {
            name: "walk_and_print",
            driver: Driver::Generated { gen: gen_case, genome_len: 512, quick: 360_000, thorough: 2_880_000 },
            check: check_case,
            configs: Configs::Both,
            required: &["walker_start", "walker_end", "direction_change_after_jump", "black_starts", "empty_chain", "outcome_stored", "ten_or_more_moves", "move_number_at_limit"],
            regressions: &[
                r#"{"fen":"7k/8/8/8/8/8/8/K7 b - - 65535 65535","src":"regression_D3","ops":[["push_legal",0,0],["push_legal",0,0],["push_legal",0,0]],"final_outcome":null,"walk":[0,0,0,3,3,7,3],"custom_number":5}"#,
            ],
            exhaustive: false,
        },
        SubCheck {
            name: "long_chain",
            driver: Driver::Custom { run: long_chain_run },
            check: long_chain_check,
            configs: Configs::Both,
            required: &["long_chain"],
            regressions: &[],
            exhaustive: false,
        },
        SubCheck {
            name: "walk_with_null_moves",
            driver: Driver::Generated { gen: gen_null_walk_case, genome_len: 300, quick: 200_000, thorough: 1_600_000 },
            check: null_walk_check,
            configs: Configs::Both,
            required: &["chain_with_null_move", "walked_forward_over_a_null_move"],
            regressions: &[],
            exhaustive: false,
        }],
    }
}

fn long_chain_run(ctx: &RunCtx, stats: &mut Stats, rep: &mut Reporter) {
    long_chain_driver("C17")(ctx, stats, rep)
}
