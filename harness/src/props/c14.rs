//! C14 — repetition counting and the chain's outcome follow the game history.

use crate::chainlib::*;
use crate::common::*;
use crate::conv::*;
use crate::engine::*;
use crate::gen::Cursor;
use crate::refmodel::*;
use crate::ensure;
use owlchess::types::{DrawReason, Outcome, OutcomeFilter, WinReason};
use serde_json::{json, Value};

fn gen_case(cur: &mut Cursor) -> Value {
    let mut c = gen_history_case(cur, Bias::Shuffle, 90);
    // observation schedule: when the calculated outcome is looked at is part of the history (a value remembered
    // between two looks at the same position can only go stale if nobody looks in between)
    c["obs"] = Value::from(cur.below(8));
    c
}

/// Is the calculated outcome looked at after op #i? 0-3: always; 4: every 4th op; 5: every 2nd; 6: every 4th,
/// shifted by two; 7: every 8th. The end of the history is always looked at.
fn observed(obs: u64, i: usize, n: usize) -> bool {
    i + 1 == n
        || match obs {
            4 => i % 4 == 3,
            5 => i % 2 == 1,
            6 => i % 4 == 1,
            7 => i % 8 == 7,
            _ => true,
        }
}

/// Checks chain.calc_outcome() against the occurrence-multiset model. Returns the class name.
pub fn check_calc(sim: &ChainSim) -> Result<&'static str, Failure> {
    let cur = sim.cur();
    let base = cur.outcome();
    let rep = sim.repetition_count();
    let got = sim.chain.calc_outcome();
    let insuf = cur.insufficient_material();
    let class = match base {
        RefOutcome::Checkmate { .. } | RefOutcome::Stalemate => "forced",
        _ if insuf || cur.half >= 150 || rep >= 5 => "mandatory",
        _ if rep >= 3 || cur.half >= 100 => "claimable",
        _ => "none",
    };
    let ok = match (class, got) {
        ("forced", Some(Outcome::Win { side, reason: WinReason::Checkmate })) => matches!(base, RefOutcome::Checkmate { winner } if col_to_lib(winner) == side),
        ("forced", Some(Outcome::Draw(DrawReason::Stalemate))) => base == RefOutcome::Stalemate,
        ("mandatory", Some(Outcome::Draw(DrawReason::InsufficientMaterial))) => insuf,
        ("mandatory", Some(Outcome::Draw(DrawReason::Moves75))) => cur.half >= 150,
        ("mandatory", Some(Outcome::Draw(DrawReason::Repeat5))) => rep >= 5,
        ("claimable", Some(Outcome::Draw(DrawReason::Repeat3))) => rep >= 3,
        ("claimable", Some(Outcome::Draw(DrawReason::Moves50))) => cur.half >= 100,
        ("none", None) => true,
        _ => false,
    };
    if !ok {
        return Err(Failure::new(format!(
            "chain.calc_outcome() = {:?}; model: class {}, occurrences of the current position = {}, clock = {}, insufficient material = {}, position outcome {:?}",
            got, class, rep, cur.half, insuf, base
        )));
    }
    Ok(class)
}

fn check_case(case: &Value, stats: &mut Stats) -> CheckResult {
    let (b, r) = match case_board(case, stats)? {
        Some(x) => x,
        None => return Ok(()),
    };
    let ops = case_ops(case);
    let mut sim = ChainSim::new(&b, &r);
    let mut seen3 = false;
    let mut seen5 = false;
    let mut pop_between = false;
    let mut pops_so_far = 0;
    let mut lookalike = false;
    let obs = case["obs"].as_u64().unwrap_or(0);
    stats.label_if(obs >= 4, "sparse_observation_schedule");
    check_calc(&sim)?;
    for (i, op) in ops.iter().enumerate() {
        sim.apply(op, stats).map_err(|f| Failure::new(format!("after op #{} {}: {}", i, op.to_json(), f.msg)))?;
        if observed(obs, i, ops.len()) {
            let class = check_calc(&sim).map_err(|f| Failure::new(format!("after op #{} {}: {}", i, op.to_json(), f.msg)))?;
            stats.label(match class {
                "forced" => "class_forced",
                "mandatory" => "class_mandatory",
                "claimable" => "class_claimable",
                _ => "class_none",
            });
        }
        let rep = sim.repetition_count();
        if rep >= 3 {
            seen3 = true;
            if sim.pops > pops_so_far || sim.pops > 0 {
                pop_between = true;
            }
        }
        if rep >= 5 {
            seen5 = true;
        }
        pops_so_far = sim.pops;
        // look-alike: same squares and side as an earlier position but different rights or mark
        let cur = sim.cur();
        if sim.positions[..sim.positions.len() - 1].iter().any(|p| p.b == cur.b && p.side == cur.side && (p.castle != cur.castle || p.ep != cur.ep)) {
            lookalike = true;
        }
        // set_auto_outcome for all three filters on a clone (does not disturb the history)
        if sim.outcome.is_none() && i % 3 == 0 && obs < 4 {
            for f in FILTERS {
                let mut c = sim.chain.clone();
                let calc = c.calc_outcome();
                let ret = c.set_auto_outcome(f);
                let want = calc.filter(|o| passes_table(o, f));
                ensure!(ret == want && *c.outcome() == want, "set_auto_outcome({:?}) on calc {:?}: returned {:?}, stored {:?}, expected {:?}", f, calc, ret, c.outcome(), want);
            }
        }
    }
    stats.label_if(seen3, "threefold_reached");
    stats.label_if(seen5, "fivefold_reached");
    stats.label_if(seen3 && pop_between, "threefold_with_pop");
    stats.label_if(lookalike, "lookalike_position");
    stats.label_if(sim.pops > 0, "pop_seen");
    stats.add("ops", ops.len() as u64);
    if seen3 && (pop_between || lookalike) {
        stats.nontrivial(&(case["fen"].to_string(), case["ops"].to_string()));
    }
    Ok(())
}

/// One position occurring hundreds of times, then unwound: the occurrence counts must come down exactly as they
/// went up (counters that saturate or wrap on the way up drift on the way down).
fn deep_repetition_check(case: &Value, stats: &mut Stats) -> CheckResult {
    let (b, r) = match case_board(case, stats)? {
        Some(x) => x,
        None => return Ok(()),
    };
    let cycles = case["cycles"].as_u64().unwrap_or(300) as usize;
    let cycle = find_cycle(&r).ok_or_else(|| Failure::new("harness: no reversible cycle from the start position"))?;
    let mut sim = ChainSim::new(&b, &r);
    let mut scratch = Stats::default();
    for i in 0..cycles * 4 {
        sim.push_legal(cycle[i % 4], (i % 6) as u8, &mut scratch)?;
        if i % 16 == 0 || i + 8 > cycles * 4 {
            check_calc(&sim).map_err(|f| Failure::new(format!("after {} plies: {}", i + 1, f.msg)))?;
        }
    }
    let peak = sim.repetition_count();
    // unwind completely, checking the outcome at every step
    let mut n = sim.moves.len();
    while n > 0 {
        sim.apply(&Op::Pop, &mut scratch)?;
        n -= 1;
        check_calc(&sim).map_err(|f| Failure::new(format!("after popping back to {} plies: {}", n, f.msg)))?;
    }
    // and the table must be reusable afterwards
    for i in 0..8 {
        sim.push_legal(cycle[i % 4], 0, &mut scratch)?;
        check_calc(&sim)?;
    }
    stats.label("deep_repetition");
    stats.label_if(peak > 255, "more_than_255_occurrences");
    stats.add("peak_occurrences", peak as u64);
    stats.nontrivial(&(case["fen"].to_string(), cycles));
    Ok(())
}

fn deep_driver(_ctx: &RunCtx, stats: &mut Stats, rep: &mut Reporter) {
    let cases: Vec<Value> = [
        r#"{"fen":"rnbqkbnr/pppppppp/8/8/8/8/PPPPPPPP/RNBQKBNR w KQkq - 0 1","cycles":300}"#,
        r#"{"fen":"4k1n1/8/8/8/8/8/8/1N2K3 b - - 0 1","cycles":270}"#,
        r#"{"fen":"4k1n1/7p/8/8/8/8/P7/1N2K3 w - - 40 9","cycles":70}"#,
    ]
    .iter()
    .map(|t| serde_json::from_str(t).unwrap())
    .collect();
    let cases = &cases;
    par_chunks(cases.len() as u64, stats, rep, |range, st, fails| {
        for i in range {
            let c = &cases[i as usize];
            if let Err(f) = guarded("C14", "deep_repetition", deep_repetition_check, c, st) {
                fails.push((c.clone(), f));
            }
        }
    });
}

/// An explicit game: a start position and a cycle of UCI tokens played `rounds` times, the outcome checked after every ply.
fn cycle_check(case: &Value, stats: &mut Stats) -> CheckResult {
    let (b, r) = match case_board(case, stats)? {
        Some(x) => x,
        None => return Err(Failure::new("harness: cycle case is not a valid position")),
    };
    let toks: Vec<String> = case["cycle"].as_array().map(|a| a.iter().filter_map(|x| x.as_str().map(|s| s.to_string())).collect()).unwrap_or_default();
    let rounds = case["rounds"].as_u64().unwrap_or(3) as usize;
    let mut sim = ChainSim::new(&b, &r);
    let mut scratch = Stats::default();
    check_calc(&sim)?;
    let mut ply = 0;
    for _ in 0..rounds {
        for t in &toks {
            let m = sim.cur().legal().into_iter().find(|m| m.uci() == *t).ok_or_else(|| Failure::new(format!("harness: {} is not legal at ply {}", t, ply)))?;
            sim.push_legal(m, (ply % 3) as u8, &mut scratch)?;
            ply += 1;
            check_calc(&sim).map_err(|f| Failure::new(format!("after ply {} ({}): {}", ply, t, f.msg)))?;
        }
    }
    while sim.moves.len() > 0 {
        sim.apply(&Op::Pop, &mut scratch)?;
        check_calc(&sim).map_err(|f| Failure::new(format!("after popping back to {} plies: {}", sim.moves.len(), f.msg)))?;
    }
    stats.label_if(case["src"] == "control", "control_cycle");
    stats.label_if(case["src"] == "half_key_pair_in_one_game", "half_key_pair_in_one_game");
    stats.nontrivial(&(case["fen"].to_string(), case["cycle"].to_string()));
    Ok(())
}

/// The keys of all men on all squares, read through the public RawBoard::zobrist_hash.
fn piece_keys() -> Vec<((Col, Pc), Sq, u64)> {
    let base = raw_from_ref(&RefPos::empty()).zobrist_hash();
    let mut out = Vec::new();
    for c in [Col::W, Col::B] {
        for pc in [Pc::P, Pc::N, Pc::B, Pc::R, Pc::Q, Pc::K] {
            for s in 0..64u8 {
                let mut p = RefPos::empty();
                p.b[s as usize] = Some((c, pc));
                out.push(((c, pc), s, raw_from_ref(&p).zobrist_hash() ^ base));
            }
        }
    }
    out
}

/// Tries to turn "man x going s<->s2 changes the key exactly like man y going t<->t2" into a real game in which the two
/// different positions alternate: kings are placed wherever the whole cycle is legal by the reference rules.
fn build_collision_game(x: (Col, Pc), s: Sq, s2: Sq, y: (Col, Pc), t: Sq, t2: Sq) -> Option<Value> {
    let squares = [s, s2, t, t2];
    if (0..4).any(|i| (0..i).any(|j| squares[i] == squares[j])) {
        return None;
    }
    let uci = |a: Sq, b: Sq| format!("{}{}", sq_name(a), sq_name(b));
    for wk in 0..64u8 {
        for bk in 0..64u8 {
            if squares.contains(&wk) || squares.contains(&bk) || wk == bk {
                continue;
            }
            let mut p = RefPos::empty();
            p.b[wk as usize] = Some((Col::W, Pc::K));
            p.b[bk as usize] = Some((Col::B, Pc::K));
            p.b[s as usize] = Some(x);
            p.b[t as usize] = Some(y);
            p.side = x.0;
            if !p.is_valid() {
                continue;
            }
            let cycle: Vec<String> = if x.0 != y.0 {
                vec![uci(s, s2), uci(t, t2), uci(s2, s), uci(t2, t)]
            } else {
                // the other side shuffles its king between two squares
                let ok = if x.0 == Col::W { bk } else { wk };
                let step = p.clone();
                let mut found = None;
                let mut q = step.clone();
                q.side = x.0.inv();
                for m in q.legal() {
                    if m.man.1 == Pc::K && !squares.contains(&m.to) {
                        found = Some(m.to);
                        break;
                    }
                }
                let y2 = found?;
                vec![uci(s, s2), uci(ok, y2), uci(t, t2), uci(y2, ok), uci(s2, s), uci(ok, y2), uci(t2, t), uci(y2, ok)]
            };
            // dry run on the reference model
            let mut q = p.clone();
            let mut fine = true;
            'dry: for _ in 0..2 {
                for tok in &cycle {
                    match q.legal().into_iter().find(|m| m.uci() == *tok && matches!(m.kind, Kind::Simple)) {
                        Some(m) if !q.is_capture(&m) => q = q.apply(&m),
                        _ => {
                            fine = false;
                            break 'dry;
                        }
                    }
                }
            }
            if fine {
                return Some(json!({"fen": p.fen(), "cycle": cycle, "rounds": 3, "src": "key_collision"}));
            }
        }
    }
    None
}

/// King + rook (or queen) against king: families small enough to enumerate (about 175,000 valid positions each) and connected
/// by legal play, so that two members which agree in half of the library's key can be put into one game.
fn krk_positions(piece: Pc, side: Col) -> Vec<RefPos> {
    let mut out = Vec::new();
    for wk in 0..64u8 {
        for wr in 0..64u8 {
            for bk in 0..64u8 {
                if wk == wr || wk == bk || wr == bk {
                    continue;
                }
                let mut p = RefPos::empty();
                p.b[wk as usize] = Some((Col::W, Pc::K));
                p.b[wr as usize] = Some((Col::W, piece));
                p.b[bk as usize] = Some((Col::B, Pc::K));
                p.side = side;
                if p.is_valid() {
                    out.push(p);
                }
            }
        }
    }
    out
}

fn krk_key(p: &RefPos) -> (u8, u8, u8, bool) {
    let find = |m: Man| (0..64u8).find(|&s| p.b[s as usize] == Some(m)).unwrap_or(64);
    let third = (0..64u8).find(|&s| matches!(p.b[s as usize], Some((_, pc)) if pc != Pc::K)).unwrap_or(64);
    (find((Col::W, Pc::K)), third, find((Col::B, Pc::K)), p.side == Col::W)
}

/// Shortest sequence of legal non-capturing moves from a to b (breadth first over the reference model's legal moves).
fn krk_path(a: &RefPos, b: &RefPos) -> Option<Vec<String>> {
    use std::collections::{HashMap, VecDeque};
    let goal = krk_key(b);
    let mut parent: HashMap<(u8, u8, u8, bool), ((u8, u8, u8, bool), String)> = HashMap::new();
    let mut queue: VecDeque<RefPos> = VecDeque::new();
    let start = krk_key(a);
    queue.push_back(a.clone());
    parent.insert(start, (start, String::new()));
    while let Some(p) = queue.pop_front() {
        let k = krk_key(&p);
        if k == goal {
            let mut toks = Vec::new();
            let mut cur = k;
            while cur != start {
                let (prev, tok) = parent[&cur].clone();
                toks.push(tok);
                cur = prev;
            }
            toks.reverse();
            return Some(toks);
        }
        if parent.len() > 600_000 {
            return None;
        }
        for m in p.legal() {
            if p.is_capture(&m) {
                continue;
            }
            let mut q = p.apply(&m);
            q.half = 0;
            q.full = 1;
            let kq = krk_key(&q);
            if !parent.contains_key(&kq) {
                parent.insert(kq, (k, m.uci()));
                queue.push_back(q);
            }
        }
    }
    None
}

/// Games in which two different positions that agree in the low or in the high half of the library's key alternate.
fn krk_half_key_games(stats: &mut Stats) -> Vec<Value> {
    // four classes (rook or queen, either side to move); pairs are looked for inside a class, where play connects them
    let classes: Vec<Vec<RefPos>> = std::thread::scope(|s| {
        let hs: Vec<_> = [(Pc::R, Col::W), (Pc::R, Col::B), (Pc::Q, Col::W), (Pc::Q, Col::B)].into_iter().map(|(pc, side)| s.spawn(move || krk_positions(pc, side))).collect();
        hs.into_iter().map(|h| h.join().unwrap()).collect()
    });
    let mut family: Vec<RefPos> = Vec::new();
    let mut pairs: Vec<(usize, usize, &'static str)> = Vec::new();
    for class in classes {
        let base = family.len();
        let mut keyed: Vec<(u64, usize)> = Vec::with_capacity(class.len());
        for (i, p) in class.iter().enumerate() {
            if let Ok(b) = owlchess::Board::try_from(raw_from_ref(p)) {
                keyed.push((b.zobrist_hash(), base + i));
            }
        }
        family.extend(class);
        for (half, shift) in [("low", 0u32), ("high", 32u32)] {
            keyed.sort_by_key(|(h, i)| ((h >> shift) as u32, *i));
            for w in keyed.windows(2) {
                if (w[0].0 >> shift) as u32 == (w[1].0 >> shift) as u32 && w[0].0 != w[1].0 {
                    pairs.push((w[0].1, w[1].1, half));
                }
            }
        }
    }
    stats.add("three_men_positions_hashed", family.len() as u64);
    stats.add("half_key_pairs_in_the_family_low", pairs.iter().filter(|p| p.2 == "low").count() as u64);
    stats.add("half_key_pairs_in_the_family_high", pairs.iter().filter(|p| p.2 == "high").count() as u64);
    // at most eight pairs per half
    let mut kept: Vec<(usize, usize, &'static str)> = Vec::new();
    for half in ["low", "high"] {
        kept.extend(pairs.iter().filter(|p| p.2 == half).take(8).cloned());
    }
    let pairs = kept;
    let family = &family;
    let games: Vec<Option<Value>> = std::thread::scope(|s| {
        let hs: Vec<_> = pairs
            .iter()
            .map(|&(i, j, half)| {
                s.spawn(move || {
                    let (a, b) = (&family[i], &family[j]);
                    let there = krk_path(a, b)?;
                    let back = krk_path(b, a)?;
                    if there.len() + back.len() > 44 {
                        return None; // two rounds must stay clear of the 50-move rule
                    }
                    let mut cycle = there;
                    cycle.extend(back);
                    Some(json!({"fen": a.fen(), "cycle": cycle, "rounds": 2, "src": "half_key_pair_in_one_game", "half": half, "other": b.fen()}))
                })
            })
            .collect();
        hs.into_iter().map(|h| h.join().unwrap()).collect()
    });
    games.into_iter().flatten().collect()
}

/// The occurrence count is kept per Zobrist key. Two positions of one game that differ in where two men stand share a key
/// exactly when the two single moves change the key by the same amount; such pairs are found here by sorting the key
/// changes of all single non-pawn moves (a structured generator for a region that random histories cannot reach), and
/// each is turned into a real game on which the ordinary oracle (occurrence counts by position) decides.
fn collision_driver(_ctx: &RunCtx, stats: &mut Stats, rep: &mut Reporter) {
    let keys = piece_keys();
    let key_of = |m: (Col, Pc), s: Sq| keys.iter().find(|k| k.0 == m && k.1 == s).map(|k| k.2).unwrap();
    let mut deltas: Vec<(u64, (Col, Pc), Sq, Sq)> = Vec::new();
    for c in [Col::W, Col::B] {
        for pc in [Pc::N, Pc::B, Pc::R, Pc::Q, Pc::K] {
            for s in 0..64u8 {
                let mut p = RefPos::empty();
                p.b[s as usize] = Some((c, pc));
                p.side = c;
                for m in p.pseudo_legal() {
                    if m.from == s && m.from < m.to && matches!(m.kind, Kind::Simple) {
                        deltas.push((key_of((c, pc), s) ^ key_of((c, pc), m.to), (c, pc), s, m.to));
                    }
                }
            }
        }
    }
    stats.count(deltas.len() as u64);
    stats.add("single_move_key_changes", deltas.len() as u64);
    deltas.sort();
    let mut cases: Vec<Value> = vec![
        serde_json::from_str(r#"{"fen":"N3k3/p7/8/8/8/8/P7/4K2n w - - 0 1","cycle":["a8b6","h1g3","b6a8","g3h1"],"rounds":3,"src":"control"}"#).unwrap(),
        serde_json::from_str(r#"{"fen":"4k3/8/8/8/8/8/8/RN2K3 w - - 0 1","cycle":["a1a2","e8d8","b1c3","d8e8","a2a1","e8d8","c3b1","d8e8"],"rounds":3,"src":"control"}"#).unwrap(),
    ];
    let mut undemonstrated = 0u64;
    for w in deltas.windows(2) {
        if w[0].0 == w[1].0 {
            stats.label("equal_key_change_of_two_moves");
            match build_collision_game(w[0].1, w[0].2, w[0].3, w[1].1, w[1].2, w[1].3).or_else(|| build_collision_game(w[1].1, w[1].2, w[1].3, w[0].1, w[0].2, w[0].3)) {
                Some(c) => cases.push(c),
                None => undemonstrated += 1,
            }
        }
    }
    stats.add("equal_changes_without_a_legal_game", undemonstrated);
    let krk = krk_half_key_games(stats);
    stats.add("games_joining_two_positions_with_equal_half_keys", krk.len() as u64);
    for g in krk.iter().take(3) {
        stats.sample(g.clone());
    }
    for g in &krk {
        stats.label(&format!("game_for_equal_{}_halves", g["half"].as_str().unwrap_or("?")));
    }
    cases.extend(krk);
    for (i, d) in deltas.iter().enumerate() {
        if i % 97 == 0 {
            stats.nontrivial(&(d.1, d.2, d.3));
        }
    }
    stats.sample(json!({"single_move_key_changes_compared": deltas.len(), "games_built_from_equal_changes": cases.len() - 2}));
    for c in &cases {
        stats.count(1);
        if let Err(f) = guarded("C14", "key_collision_search", cycle_check, c, stats) {
            rep(c.clone(), f);
        }
    }
}

fn passes_check(case: &Value, stats: &mut Stats) -> CheckResult {
    let o = all_outcomes()[case["outcome"].as_u64().unwrap_or(0) as usize % 22];
    let f = FILTERS[case["filter"].as_u64().unwrap_or(0) as usize % 3];
    ensure!(o.passes(f) == passes_table(&o, f), "{:?}.passes({:?}) = {}, table says {}", o, f, o.passes(f), passes_table(&o, f));
    ensure!(o.is_force() == passes_table(&o, OutcomeFilter::Force), "{:?}.is_force() = {}", o, o.is_force());
    let w = match o {
        Outcome::Win { side, .. } => Some(side),
        _ => None,
    };
    ensure!(o.winner() == w, "winner()");
    // the short status token of an outcome (used by the styled move list)
    use owlchess::types::GameStatus;
    let tok = match o {
        Outcome::Win { side: owlchess::Color::White, .. } => "1-0",
        Outcome::Win { side: owlchess::Color::Black, .. } => "0-1",
        Outcome::Draw(_) => "1/2-1/2",
    };
    ensure!(GameStatus::from(o).to_string() == tok && GameStatus::from(&o).to_string() == tok && GameStatus::from(Some(o)).to_string() == tok, "GameStatus of {:?}", o);
    ensure!(GameStatus::from(None).to_string() == "*", "GameStatus of no outcome");
    stats.nontrivial(&(case["outcome"].as_u64(), case["filter"].as_u64()));
    Ok(())
}

fn passes_driver(_ctx: &RunCtx, stats: &mut Stats, rep: &mut Reporter) {
    for o in 0..22 {
        for f in 0..3 {
            let case = json!({"outcome": o, "filter": f});
            if let Err(fl) = guarded("C14", "filter_table", passes_check, &case, stats) {
                rep(case, fl);
            }
        }
    }
}

/// Directed histories: a knight shuffle repeated k times from few-men / opening positions, with pops.
fn gen_shuffle_case(cur: &mut Cursor) -> Value {
    let (p, src) = gen_history_start(cur, Bias::Shuffle);
    let mut ops: Vec<Value> = Vec::new();
    let pre = cur.below(4);
    for _ in 0..pre {
        ops.push(gen_op(cur, Bias::Play).to_json());
    }
    let cycles = 1 + cur.below(6);
    let (k1, k2) = (cur.u8(), cur.u8());
    // out, out, back, back  (PushInverse returns the man moved two plies ago)
    ops.push(Op::PushInverse(k1, 0).to_json());
    ops.push(Op::PushInverse(k2, 0).to_json());
    for _ in 0..cycles * 2 {
        if cur.chance(30) {
            ops.push(Op::Pop.to_json());
            ops.push(Op::PushInverse(0, cur.below(6) as u8).to_json());
        }
        ops.push(Op::PushInverse(0, cur.below(6) as u8).to_json());
        ops.push(Op::PushInverse(0, cur.below(6) as u8).to_json());
        if cur.chance(30) {
            ops.push(Op::SetAuto(cur.below(3) as u8).to_json());
            ops.push(Op::ClearOutcome.to_json());
        }
    }
    let post = cur.below(6);
    for _ in 0..post {
        ops.push(gen_op(cur, Bias::Shuffle).to_json());
    }
    crate::common::with_twin(cur, json!({"fen": p.fen(), "src": src, "ops": ops}))
}

pub fn property() -> Property {
    Property {
        id: "C14",
        rule: "Model-based histories with a shuffle bias (moves that return a man to the square it left two plies ago, quiet piece moves, \
               pops, irreversible moves, clocks pre-set near 100/150), from the initial position, few-men positions and all sources; and \
               directed shuffle histories (k out-and-back cycles with pops and automatic outcomes interleaved). Model: multiset of \
               (squares, side, rights, mark) over the start position and every position currently in the chain; class = forced \
               (reference) > mandatory (insufficient material | clock >= 150 | count >= 5) > claimable (count >= 3 | clock >= 100) > none. \
               After every op chain.calc_outcome() must be in that class with a reason that applies; set_auto_outcome(f) for all three \
               filters stores exactly what passes an independently written filter table. deep_repetition: one position \
               made to occur 70-301 times by a reversible 4-ply cycle and then unwound ply by ply with the outcome checked at every step. \
               key_collision_search: the key changes of all single non-pawn moves on an empty board (read through RawBoard::zobrist_hash) are sorted; two different moves with the same change would make two different positions of one game share an occurrence counter, so each such pair is turned into a real game (kings placed where the cycle is legal) and judged by the same oracle; two control games always run; in addition all ~700,000 positions of king + rook or queen v king (either side to move) are hashed by the library, and up to 16 pairs that agree in the low or the high half of the key are joined into one game by shortest legal paths (breadth-first over the reference model) and played twice round. \
               Outcome::passes / is_force are enumerated over all 22 outcomes x 3 filters. Non-trivial = history reaching a third occurrence with a pop before it or a look-alike \
               position (same squares, different rights/mark); distinct by case.",
        assumptions: &[
            "64-bit Zobrist collisions between different positions inside one generated game are treated as impossible (< 2^-40 per run)",
            "reference outcome classifier and apply()",
        ],
        subchecks: vec![
            SubCheck {
                name: "shuffle_histories",
                driver: Driver::Generated { gen: gen_case, genome_len: 512, quick: 360_000, thorough: 2_880_000 },
                check: check_case,
                configs: Configs::ReleaseOnly,
                required: &["threefold_reached", "pop_seen", "class_mandatory", "class_claimable", "class_none", "lookalike_position", "sparse_observation_schedule"],
                regressions: &[],
                exhaustive: false,
            },
            SubCheck {
                name: "directed_repetitions",
                driver: Driver::Generated { gen: gen_shuffle_case, genome_len: 256, quick: 360_000, thorough: 2_880_000 },
                check: check_case,
                configs: Configs::ReleaseOnly,
                required: &["threefold_reached", "fivefold_reached", "threefold_with_pop", "auto_outcome_stored", "auto_outcome_filtered", "class_forced"],
                regressions: &[],
                exhaustive: false,
            },
            SubCheck {
                name: "deep_repetition",
                driver: Driver::Custom { run: deep_driver },
                check: deep_repetition_check,
                configs: Configs::ReleaseOnly,
                required: &["deep_repetition", "more_than_255_occurrences"],
                regressions: &[],
                exhaustive: false,
            },
            SubCheck {
                name: "key_collision_search",
                driver: Driver::Custom { run: collision_driver },
                check: cycle_check,
                configs: Configs::ReleaseOnly,
                required: &["control_cycle"], // the number of half-key pairs depends on the key table (about 7 expected); none at all is possible
                regressions: &[],
                exhaustive: false,
            },
            SubCheck {
                name: "filter_table",
                driver: Driver::Custom { run: passes_driver },
                check: passes_check,
                configs: Configs::Both,
                required: &[],
                regressions: &[],
                exhaustive: true,
            },
        ],
    }
}

