//! C14 — repetition counting and the chain's outcome follow the game history.

use crate::chainlib::*;
use crate::common::*;
use crate::conv::*;
use crate::engine::*;
use crate::gen::Cursor;
use crate::refmodel::*;
use crate::ensure;
use owlchess::types::{DrawReason, Outcome, OutcomeFilter, WinReason};
use serde_json::{json, Value};

fn gen_case(cur: &mut Cursor) -> Value {
    gen_history_case(cur, Bias::Shuffle, 90)
}

/// Checks chain.calc_outcome() against the occurrence-multiset model. Returns the class name.
pub fn check_calc(sim: &ChainSim) -> Result<&'static str, Failure> {
    let cur = sim.cur();
    let base = cur.outcome();
    let rep = sim.repetition_count();
    let got = sim.chain.calc_outcome();
    let insuf = cur.insufficient_material();
    let class = match base {
        RefOutcome::Checkmate { .. } | RefOutcome::Stalemate => "forced",
        _ if insuf || cur.half >= 150 || rep >= 5 => "mandatory",
        _ if rep >= 3 || cur.half >= 100 => "claimable",
        _ => "none",
    };
    let ok = match (class, got) {
        ("forced", Some(Outcome::Win { side, reason: WinReason::Checkmate })) => matches!(base, RefOutcome::Checkmate { winner } if col_to_lib(winner) == side),
        ("forced", Some(Outcome::Draw(DrawReason::Stalemate))) => base == RefOutcome::Stalemate,
        ("mandatory", Some(Outcome::Draw(DrawReason::InsufficientMaterial))) => insuf,
        ("mandatory", Some(Outcome::Draw(DrawReason::Moves75))) => cur.half >= 150,
        ("mandatory", Some(Outcome::Draw(DrawReason::Repeat5))) => rep >= 5,
        ("claimable", Some(Outcome::Draw(DrawReason::Repeat3))) => rep >= 3,
        ("claimable", Some(Outcome::Draw(DrawReason::Moves50))) => cur.half >= 100,
        ("none", None) => true,
        _ => false,
    };
    if !ok {
        return Err(Failure::new(format!(
            "chain.calc_outcome() = {:?}; model: class {}, occurrences of the current position = {}, clock = {}, insufficient material = {}, position outcome {:?}",
            got, class, rep, cur.half, insuf, base
        )));
    }
    Ok(class)
}

fn check_case(case: &Value, stats: &mut Stats) -> CheckResult {
    let (b, r) = match case_board(case, stats)? {
        Some(x) => x,
        None => return Ok(()),
    };
    let ops = case_ops(case);
    let mut sim = ChainSim::new(&b, &r);
    let mut seen3 = false;
    let mut seen5 = false;
    let mut pop_between = false;
    let mut pops_so_far = 0;
    let mut lookalike = false;
    check_calc(&sim)?;
    for (i, op) in ops.iter().enumerate() {
        sim.apply(op, stats).map_err(|f| Failure::new(format!("after op #{} {}: {}", i, op.to_json(), f.msg)))?;
        let class = check_calc(&sim).map_err(|f| Failure::new(format!("after op #{} {}: {}", i, op.to_json(), f.msg)))?;
        stats.label(match class {
            "forced" => "class_forced",
            "mandatory" => "class_mandatory",
            "claimable" => "class_claimable",
            _ => "class_none",
        });
        let rep = sim.repetition_count();
        if rep >= 3 {
            seen3 = true;
            if sim.pops > pops_so_far || sim.pops > 0 {
                pop_between = true;
            }
        }
        if rep >= 5 {
            seen5 = true;
        }
        pops_so_far = sim.pops;
        // look-alike: same squares and side as an earlier position but different rights or mark
        let cur = sim.cur();
        if sim.positions[..sim.positions.len() - 1].iter().any(|p| p.b == cur.b && p.side == cur.side && (p.castle != cur.castle || p.ep != cur.ep)) {
            lookalike = true;
        }
        // set_auto_outcome for all three filters on a clone (does not disturb the history)
        if sim.outcome.is_none() && i % 3 == 0 {
            for f in FILTERS {
                let mut c = sim.chain.clone();
                let calc = c.calc_outcome();
                let ret = c.set_auto_outcome(f);
                let want = calc.filter(|o| passes_table(o, f));
                ensure!(ret == want && *c.outcome() == want, "set_auto_outcome({:?}) on calc {:?}: returned {:?}, stored {:?}, expected {:?}", f, calc, ret, c.outcome(), want);
            }
        }
    }
    stats.label_if(seen3, "threefold_reached");
    stats.label_if(seen5, "fivefold_reached");
    stats.label_if(seen3 && pop_between, "threefold_with_pop");
    stats.label_if(lookalike, "lookalike_position");
    stats.label_if(sim.pops > 0, "pop_seen");
    stats.add("ops", ops.len() as u64);
    if seen3 && (pop_between || lookalike) {
        stats.nontrivial(&(case["fen"].to_string(), case["ops"].to_string()));
    }
    Ok(())
}

/// One position occurring hundreds of times, then unwound: the occurrence counts must come down exactly as they
/// went up (counters that saturate or wrap on the way up drift on the way down).
fn deep_repetition_check(case: &Value, stats: &mut Stats) -> CheckResult {
    let (b, r) = match case_board(case, stats)? {
        Some(x) => x,
        None => return Ok(()),
    };
    let cycles = case["cycles"].as_u64().unwrap_or(300) as usize;
    let cycle = find_cycle(&r).ok_or_else(|| Failure::new("harness: no reversible cycle from the start position"))?;
    let mut sim = ChainSim::new(&b, &r);
    let mut scratch = Stats::default();
    for i in 0..cycles * 4 {
        sim.push_legal(cycle[i % 4], (i % 6) as u8, &mut scratch)?;
        if i % 16 == 0 || i + 8 > cycles * 4 {
            check_calc(&sim).map_err(|f| Failure::new(format!("after {} plies: {}", i + 1, f.msg)))?;
        }
    }
    let peak = sim.repetition_count();
    // unwind completely, checking the outcome at every step
    let mut n = sim.moves.len();
    while n > 0 {
        sim.apply(&Op::Pop, &mut scratch)?;
        n -= 1;
        check_calc(&sim).map_err(|f| Failure::new(format!("after popping back to {} plies: {}", n, f.msg)))?;
    }
    // and the table must be reusable afterwards
    for i in 0..8 {
        sim.push_legal(cycle[i % 4], 0, &mut scratch)?;
        check_calc(&sim)?;
    }
    stats.label("deep_repetition");
    stats.label_if(peak > 255, "more_than_255_occurrences");
    stats.add("peak_occurrences", peak as u64);
    stats.nontrivial(&(case["fen"].to_string(), cycles));
    Ok(())
}

fn deep_driver(_ctx: &RunCtx, stats: &mut Stats, rep: &mut Reporter) {
    let cases: Vec<Value> = [
        r#"{"fen":"rnbqkbnr/pppppppp/8/8/8/8/PPPPPPPP/RNBQKBNR w KQkq - 0 1","cycles":300}"#,
        r#"{"fen":"4k1n1/8/8/8/8/8/8/1N2K3 b - - 0 1","cycles":270}"#,
        r#"{"fen":"4k1n1/7p/8/8/8/8/P7/1N2K3 w - - 40 9","cycles":70}"#,
    ]
    .iter()
    .map(|t| serde_json::from_str(t).unwrap())
    .collect();
    let cases = &cases;
    par_chunks(cases.len() as u64, stats, rep, |range, st, fails| {
        for i in range {
            let c = &cases[i as usize];
            if let Err(f) = guarded("C14", "deep_repetition", deep_repetition_check, c, st) {
                fails.push((c.clone(), f));
            }
        }
    });
}

fn passes_check(case: &Value, stats: &mut Stats) -> CheckResult {
    let o = all_outcomes()[case["outcome"].as_u64().unwrap_or(0) as usize % 22];
    let f = FILTERS[case["filter"].as_u64().unwrap_or(0) as usize % 3];
    ensure!(o.passes(f) == passes_table(&o, f), "{:?}.passes({:?}) = {}, table says {}", o, f, o.passes(f), passes_table(&o, f));
    ensure!(o.is_force() == passes_table(&o, OutcomeFilter::Force), "{:?}.is_force() = {}", o, o.is_force());
    let w = match o {
        Outcome::Win { side, .. } => Some(side),
        _ => None,
    };
    ensure!(o.winner() == w, "winner()");
    // the short status token of an outcome (used by the styled move list)
    use owlchess::types::GameStatus;
    let tok = match o {
        Outcome::Win { side: owlchess::Color::White, .. } => "1-0",
        Outcome::Win { side: owlchess::Color::Black, .. } => "0-1",
        Outcome::Draw(_) => "1/2-1/2",
    };
    ensure!(GameStatus::from(o).to_string() == tok && GameStatus::from(&o).to_string() == tok && GameStatus::from(Some(o)).to_string() == tok, "GameStatus of {:?}", o);
    ensure!(GameStatus::from(None).to_string() == "*", "GameStatus of no outcome");
    stats.nontrivial(&(case["outcome"].as_u64(), case["filter"].as_u64()));
    Ok(())
}

fn passes_driver(_ctx: &RunCtx, stats: &mut Stats, rep: &mut Reporter) {
    for o in 0..22 {
        for f in 0..3 {
            let case = json!({"outcome": o, "filter": f});
            if let Err(fl) = guarded("C14", "filter_table", passes_check, &case, stats) {
                rep(case, fl);
            }
        }
    }
}

/// Directed histories: a knight shuffle repeated k times from few-men / opening positions, with pops.
fn gen_shuffle_case(cur: &mut Cursor) -> Value {
    let (p, src) = gen_history_start(cur, Bias::Shuffle);
    let mut ops: Vec<Value> = Vec::new();
    let pre = cur.below(4);
    for _ in 0..pre {
        ops.push(gen_op(cur, Bias::Play).to_json());
    }
    let cycles = 1 + cur.below(6);
    let (k1, k2) = (cur.u8(), cur.u8());
    // out, out, back, back  (PushInverse returns the man moved two plies ago)
    ops.push(Op::PushInverse(k1, 0).to_json());
    ops.push(Op::PushInverse(k2, 0).to_json());
    for _ in 0..cycles * 2 {
        if cur.chance(30) {
            ops.push(Op::Pop.to_json());
            ops.push(Op::PushInverse(0, cur.below(6) as u8).to_json());
        }
        ops.push(Op::PushInverse(0, cur.below(6) as u8).to_json());
        ops.push(Op::PushInverse(0, cur.below(6) as u8).to_json());
        if cur.chance(30) {
            ops.push(Op::SetAuto(cur.below(3) as u8).to_json());
            ops.push(Op::ClearOutcome.to_json());
        }
    }
    let post = cur.below(6);
    for _ in 0..post {
        ops.push(gen_op(cur, Bias::Shuffle).to_json());
    }
    crate::common::with_twin(cur, json!({"fen": p.fen(), "src": src, "ops": ops}))
}

pub fn property() -> Property {
    Property {
        id: "C14",
        rule: "Model-based histories with a shuffle bias (moves that return a man to the square it left two plies ago, quiet piece moves, \
               pops, irreversible moves, clocks pre-set near 100/150), from the initial position, few-men positions and all sources; and \
               directed shuffle histories (k out-and-back cycles with pops and automatic outcomes interleaved). Model: multiset of \
               (squares, side, rights, mark) over the start position and every position currently in the chain; class = forced \
               (reference) > mandatory (insufficient material | clock >= 150 | count >= 5) > claimable (count >= 3 | clock >= 100) > none. \
               After every op chain.calc_outcome() must be in that class with a reason that applies; set_auto_outcome(f) for all three \
               filters stores exactly what passes an independently written filter table. deep_repetition: one position \
               made to occur 70-301 times by a reversible 4-ply cycle and then unwound ply by ply with the outcome checked at every step. \
               Outcome::passes / is_force are enumerated over all 22 outcomes x 3 filters. Non-trivial = history reaching a third occurrence with a pop before it or a look-alike \
               position (same squares, different rights/mark); distinct by case.",
        assumptions: &[
            "64-bit Zobrist collisions between different positions inside one generated game are treated as impossible (< 2^-40 per run)",
            "reference outcome classifier and apply()",
        ],
        subchecks: vec![
            SubCheck {
                name: "shuffle_histories",
                driver: Driver::Generated { gen: gen_case, genome_len: 512, quick: 360_000, thorough: 2_880_000 },
                check: check_case,
                configs: Configs::ReleaseOnly,
                required: &["threefold_reached", "pop_seen", "class_mandatory", "class_claimable", "class_none", "lookalike_position"],
                regressions: &[],
                exhaustive: false,
            },
            SubCheck {
                name: "directed_repetitions",
                driver: Driver::Generated { gen: gen_shuffle_case, genome_len: 256, quick: 360_000, thorough: 2_880_000 },
                check: check_case,
                configs: Configs::ReleaseOnly,
                required: &["threefold_reached", "fivefold_reached", "threefold_with_pop", "auto_outcome_stored", "auto_outcome_filtered", "class_forced"],
                regressions: &[],
                exhaustive: false,
            },
            SubCheck {
                name: "deep_repetition",
                driver: Driver::Custom { run: deep_driver },
                check: deep_repetition_check,
                configs: Configs::ReleaseOnly,
                required: &["deep_repetition", "more_than_255_occurrences"],
                regressions: &[],
                exhaustive: false,
            },
            SubCheck {
                name: "filter_table",
                driver: Driver::Custom { run: passes_driver },
                check: passes_check,
                configs: Configs::Both,
                required: &[],
                regressions: &[],
                exhaustive: true,
            },
        ],
    }
}

