//! C11 — validation accepts exactly the valid raw boards and normalises them consistently.

use crate::common::*;
use crate::conv::*;
use crate::engine::*;
use crate::gen::raw::*;
use crate::refmodel::*;
use crate::{ensure, fail};
use owlchess::board::ValidateError;
use owlchess::Board;
use serde_json::Value;

fn map_err(e: &ValidateError) -> Reject {
    match e {
        ValidateError::InvalidEnpassant(c) => Reject::InvalidEnpassant(sq_from_lib(*c)),
        ValidateError::TooManyPieces(c) => Reject::TooManyPieces(col_from_lib(*c)),
        ValidateError::NoKing(c) => Reject::NoKing(col_from_lib(*c)),
        ValidateError::TooManyKings(c) => Reject::TooManyKings(col_from_lib(*c)),
        ValidateError::InvalidPawn(c) => Reject::InvalidPawn(sq_from_lib(*c)),
        ValidateError::OpponentKingAttacked => Reject::OpponentKingAttacked,
    }
}

fn reason_name(r: &Reject) -> &'static str {
    match r {
        Reject::InvalidEnpassant(_) => "reject:InvalidEnpassant",
        Reject::TooManyPieces(_) => "reject:TooManyPieces",
        Reject::NoKing(_) => "reject:NoKing",
        Reject::TooManyKings(_) => "reject:TooManyKings",
        Reject::InvalidPawn(_) => "reject:InvalidPawn",
        Reject::OpponentKingAttacked => "reject:OpponentKingAttacked",
    }
}

fn check_case(case: &Value, stats: &mut Stats) -> CheckResult {
    let p = raw_from_json(case).map_err(|e| Failure::new(format!("harness: bad raw case: {}", e)))?;
    let raw = raw_from_ref(&p);
    let rej = p.rejections();
    if let Some(src) = case["src"].as_str() {
        stats.label(&format!("src:{}", src));
    }
    // a near-identical board is validated first (both entry points), so that anything validation remembers is about it
    if let Some(t) = case.get("twin").and_then(|t| t.as_u64()).and_then(|sel| crate::gen::positions::twin_of(&p, sel as u32)) {
        let traw = raw_from_ref(&t);
        let _ = Board::try_from(&traw).map(|b| b.zobrist_hash());
        let _ = Board::try_from(traw).map(|b| b.zobrist_hash());
        stats.label("twin_validated_first");
    }
    let by_ref: Result<Board, ValidateError> = Board::try_from(&raw);
    match Board::try_from(raw) {
        Ok(x) => {
            ensure!(rej.is_empty(), "validation accepted a board on which {:?} holds", rej);
            let n = p.normalised();
            let want = raw_from_ref(&n);
            if *x.raw() != want {
                fail!("accepted board is {} but the allowed normalisation gives {}", x.raw().as_fen(), n.fen());
            }
            check_consistent(&x, "freshly validated board")?;
            // idempotence
            match Board::try_from(*x.raw()) {
                Ok(y) => {
                    if snapshot(&y) != snapshot(&x) {
                        fail!("validating the result again changes it: {}", snap_diff(&snapshot(&y), &snapshot(&x)));
                    }
                }
                Err(e) => fail!("validating the result again fails: {}", e),
            }
            match by_ref {
                Ok(y) => ensure!(snapshot(&y) == snapshot(&x), "TryFrom<&RawBoard> differs from TryFrom<RawBoard>"),
                Err(e) => fail!("TryFrom<&RawBoard> refused what TryFrom<RawBoard> accepted: {}", e),
            }
            if n == p {
                stats.label("accepted_unchanged");
            } else {
                stats.label("accepted_normalised");
                stats.label_if(n.castle != p.castle, "norm:castling_dropped");
                if n.ep != p.ep {
                    let s = p.ep.unwrap();
                    if p.b[s as usize] != Some((p.side.inv(), Pc::P)) {
                        stats.label("norm:ep_no_enemy_pawn");
                    } else {
                        stats.label("norm:ep_square_behind_occupied");
                    }
                }
                stats.nontrivial(&(p.rep_key(), "norm"));
            }
        }
        Err(e) => {
            ensure!(!rej.is_empty(), "validation refused a board that satisfies every condition: {} ({})", e, p.fen());
            let m = map_err(&e);
            ensure!(rej.contains(&m), "reported reason {:?} does not hold on the board; conditions that hold: {:?}", e, rej);
            ensure!(by_ref.is_err(), "TryFrom<&RawBoard> accepted what TryFrom<RawBoard> refused");
            stats.label(reason_name(&m));
            for r in &rej {
                stats.label(&format!("holds:{}", &reason_name(r)[7..]));
            }
            stats.nontrivial(&(p.rep_key(), "rej"));
        }
    }
    Ok(())
}

pub fn property() -> Property {
    Property {
        id: "C11",
        rule: "Raw boards from 5 sources (arbitrary cell assignments with a density knob, valid positions, valid + one injected fault of 9 \
               kinds, valid + one normalisation trigger of 5 kinds, crowded boards around the 16-men limit). Oracle: Board::try_from is Ok \
               <=> reference validity (one king each, <= 16 men each, no back-rank pawn, mark on the proper rank, side not to move not in \
               check); on Err the reported condition holds on the board (any applicable one is accepted); on Ok the result equals the \
               reference normalisation (rights without king/rook at home dropped; mark without enemy pawn or with occupied square behind \
               dropped), is internally consistent, and validating it again reproduces it in full. Non-trivial = rejected, or accepted \
               with a change; distinct by (squares, side, rights, mark, outcome class).",
        assumptions: &["reference attack geometry is correct"],
        subchecks: vec![SubCheck {
            name: "raw_boards",
            driver: Driver::Generated { gen: gen_raw_case, genome_len: 256, quick: 6_000_000, thorough: 50_000_000 },
            check: check_case,
            configs: Configs::Both,
            required: &[
                "accepted_unchanged", "norm:castling_dropped", "norm:ep_no_enemy_pawn", "norm:ep_square_behind_occupied",
                "reject:InvalidEnpassant", "reject:TooManyPieces", "reject:NoKing", "reject:TooManyKings", "reject:InvalidPawn",
                "reject:OpponentKingAttacked",
            ],
            regressions: &[],
            exhaustive: false,
        }],
    }
}
