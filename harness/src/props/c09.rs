//! C09 — SAN output is standard; SAN input resolves only to the legal move it describes.

use crate::common::*;
use crate::conv::*;
use crate::engine::*;
use crate::gen::positions::*;
use crate::gen::strings::*;
use crate::gen::Cursor;
use crate::refmodel::*;
use crate::{ensure, fail};
use owlchess::moves::san::{self, IntoMoveError, ParseError};
use owlchess::moves::Style;
use owlchess::{Board, Move};
use serde_json::{json, Value};
use std::collections::HashMap;
use std::str::FromStr;

/// Positions with several same-type pieces of the side to move converging on one square, with
/// optional pins: the shapes that need file / rank / both hints.
pub fn gen_san_position(cur: &mut Cursor) -> (RefPos, &'static str) {
    let sel = cur.below(10);
    if sel < 3 {
        return gen_position(cur);
    }
    if sel == 3 {
        // castling and "only reply is en passant" shapes matter for O-O texts and for +/# marks
        let which = cur.pick(&[4usize, 12, 3, 11]);
        return gen_position_from(cur, which);
    }
    let mut p = RefPos::empty();
    let us = Col::W;
    let target = cur.below(64) as Sq;
    let pc = cur.pick(&[Pc::N, Pc::N, Pc::R, Pc::R, Pc::Q, Pc::Q, Pc::B]);
    // squares from which `pc` reaches the target on an empty board
    let mut probe = RefPos::empty();
    let cands: Vec<Sq> = (0..64u8)
        .filter(|&s| {
            if s == target {
                return false;
            }
            probe.b[s as usize] = Some((us, pc));
            let ok = probe.reaches(s, target);
            probe.b[s as usize] = None;
            ok
        })
        .collect();
    let n = 2 + cur.below(4);
    for _ in 0..n {
        if !cands.is_empty() {
            let s = cands[cur.below(cands.len())];
            p.b[s as usize] = Some((us, pc));
        }
    }
    // sometimes a victim on the target
    if cur.chance(90) {
        p.b[target as usize] = Some((us.inv(), cur.pick(&[Pc::N, Pc::B, Pc::R, Pc::Q, Pc::P])));
        if matches!(p.b[target as usize], Some((_, Pc::P))) && (rank_of(target) == 0 || rank_of(target) == 7) {
            p.b[target as usize] = None;
        }
    }
    // own king, possibly on a line with one of the pieces (pin)
    let mine: Vec<Sq> = (0..64u8).filter(|&s| p.b[s as usize] == Some((us, pc))).collect();
    let mut king_placed = false;
    if cur.chance(140) && !mine.is_empty() {
        let through = mine[cur.below(mine.len())];
        let d = cur.pick(&[(1i8, 0i8), (-1, 0), (0, 1), (0, -1), (1, 1), (1, -1), (-1, 1), (-1, -1)]);
        let ray = |sign: i8| -> Vec<Sq> {
            let mut v = Vec::new();
            let (mut f, mut r) = (file_of(through) + sign * d.0, rank_of(through) + sign * d.1);
            while let Some(s) = mk_sq(f, r) {
                if p.b[s as usize].is_some() {
                    break;
                }
                v.push(s);
                f += sign * d.0;
                r += sign * d.1;
            }
            v
        };
        let (ks, ss) = (ray(1), ray(-1));
        if !ks.is_empty() && !ss.is_empty() {
            let k = ks[cur.below(ks.len())];
            let s = ss[cur.below(ss.len())];
            let diag = d.0 != 0 && d.1 != 0;
            p.b[k as usize] = Some((us, Pc::K));
            p.b[s as usize] = Some((us.inv(), if cur.bool() { Pc::Q } else if diag { Pc::B } else { Pc::R }));
            king_placed = true;
        }
    }
    if !king_placed {
        let v: Vec<Sq> = (0..64u8).filter(|&s| p.b[s as usize].is_none()).collect();
        p.b[v[cur.below(v.len())] as usize] = Some((us, Pc::K));
    }
    let wk = p.king_sq(us).unwrap();
    let v: Vec<Sq> = (0..64u8)
        .filter(|&s| p.b[s as usize].is_none() && ((file_of(s) - file_of(wk)).abs() > 1 || (rank_of(s) - rank_of(wk)).abs() > 1))
        .collect();
    if !v.is_empty() {
        p.b[v[cur.below(v.len())] as usize] = Some((us.inv(), Pc::K));
    }
    let extra = cur.below(5);
    for _ in 0..extra {
        let c = if cur.bool() { Col::B } else { Col::W };
        let m = cur.pick(&[Pc::P, Pc::P, Pc::N, Pc::B, Pc::R, Pc::Q]);
        let v: Vec<Sq> = (0..64u8).filter(|&s| p.b[s as usize].is_none() && (m != Pc::P || (1..=6).contains(&rank_of(s)))).collect();
        if !v.is_empty() {
            p.b[v[cur.below(v.len())] as usize] = Some((c, m));
        }
    }
    p.side = us;
    p.half = crate::gen::gen_counter(cur);
    p.full = crate::gen::gen_counter(cur).max(1);
    if cur.bool() {
        p = flip_colors(&p);
    }
    repair(cur, &mut p, false);
    (p, "san_family")
}

fn gen_san_pos_case(cur: &mut Cursor) -> Value {
    let (p, src) = gen_san_position(cur);
    crate::common::with_twin(cur, json!({"fen": p.fen(), "src": src}))
}

pub fn utf8_render(p: &RefPos, m: &RefMove, san: &str) -> String {
    // glyphs (white set) for piece letters, no '=' before the promotion piece
    let glyph = |c: char| match c {
        'N' => '♘',
        'B' => '♗',
        'R' => '♖',
        'Q' => '♕',
        'K' => '♔',
        x => x,
    };
    let _ = p;
    match m.kind {
        Kind::CastleK | Kind::CastleQ => san.to_string(),
        _ => san.chars().filter(|c| *c != '=').map(glyph).collect(),
    }
}

pub fn check_format(b: &Board, r: &RefPos, stats: &mut Stats) -> CheckResult {
    let l = r.legal();
    let mut texts: HashMap<String, RefMove> = HashMap::new();
    let mut interesting = false;
    for m in &l {
        let mv = mv_to_lib(m).map_err(Failure::new)?;
        let want = r.san(m, &l);
        let got = match mv.san(b) {
            Ok(s) => s,
            Err(e) => fail!("Move::san refused the legal move {}: {}", m.uci(), e),
        };
        let text = got.to_string();
        ensure!(text == want, "SAN of {:?}/{} is {:?}, standard notation is {:?}", m.kind, m.uci(), text, want);
        match mv.styled(b, Style::San) {
            Ok(s) => ensure!(s.to_string() == want, "styled(San) of {} is {:?}, expected {:?}", m.uci(), s.to_string(), want),
            Err(e) => fail!("styled(San) refused a legal move: {}", e),
        }
        match mv.styled(b, Style::SanUtf8) {
            Ok(s) => {
                let w = utf8_render(r, m, &want);
                ensure!(s.to_string() == w, "styled(SanUtf8) of {} is {:?}, expected {:?}", m.uci(), s.to_string(), w);
            }
            Err(e) => fail!("styled(SanUtf8) refused a legal move: {}", e),
        }
        ensure!(got.styled(san::Style::Algebraic).to_string() == want, "san::Move::styled(Algebraic) differs");
        let body = want.trim_end_matches(['+', '#']);
        ensure!(got.data.to_string() == body && got.data.styled(san::Style::Algebraic).to_string() == body, "san::Data text {:?} is not the SAN {:?} without its check mark", got.data.to_string(), want);
        ensure!(san::Data::from_move(mv, b) == got.data, "san::Data::from_move differs from san::Move::from_move");
        if let Some(other) = texts.insert(text.clone(), *m) {
            fail!("two distinct legal moves {} and {} share the SAN text {:?}", other.uci(), m.uci(), text);
        }
        match Move::from_san(&text, b) {
            Ok(x) => ensure!(x == mv, "from_san({:?}) = {} instead of {}", text, mv_desc(&x), mv_desc(&mv)),
            Err(e) => fail!("from_san refused the library's own text {:?}: {}", text, e),
        }
        match san::Move::from_str(&text) {
            Ok(parsed) => {
                ensure!(parsed == got, "san::Move::from_str({:?}) differs from the formatted value", text);
                ensure!(parsed.to_string() == text, "san::Move text round trip");
            }
            Err(e) => fail!("san::Move::from_str refused {:?}: {}", text, e),
        }
        // classification
        if m.man.1 != Pc::P && !matches!(m.kind, Kind::CastleK | Kind::CastleQ) {
            let body: String = text.trim_end_matches(['+', '#']).chars().filter(|c| *c != 'x').collect();
            match body.len() {
                4 => {
                    let h = body.as_bytes()[1];
                    if h.is_ascii_digit() {
                        stats.label("rank_hint");
                    } else {
                        stats.label("file_hint");
                    }
                    interesting = true;
                }
                5 => {
                    stats.label("both_hints");
                    interesting = true;
                }
                _ => {}
            }
            // a semilegal-but-illegal twin that would have forced a hint
            let pinned_twin = r
                .pseudo_legal()
                .iter()
                .any(|o| o.man == m.man && o.to == m.to && o.from != m.from && !l.contains(o));
            if pinned_twin {
                stats.label("pinned_candidate_excluded");
                interesting = true;
            }
        }
        if text.ends_with('+') {
            stats.label("check_mark");
            interesting = true;
            if m.kind == Kind::Double {
                let n = r.apply(m);
                if n.legal().iter().all(|x| x.kind == Kind::Ep) {
                    stats.label("check_with_only_ep_replies");
                }
            }
        }
        if text.ends_with('#') {
            stats.label("mate_mark");
            interesting = true;
        }
        stats.label_if(matches!(m.kind, Kind::Promo(_)), "promotion");
        stats.label_if(m.kind == Kind::Ep, "en_passant");
        stats.label_if(matches!(m.kind, Kind::CastleK | Kind::CastleQ), "castling");
        stats.add("moves_formatted", 1);
    }
    // illegal semilegal moves have no SAN
    for m in r.pseudo_legal() {
        if !l.contains(&m) {
            let mv = mv_to_lib(&m).map_err(Failure::new)?;
            ensure!(mv.san(b).is_err(), "Move::san produced text for the illegal move {}", m.uci());
            ensure!(mv.styled(b, Style::San).is_err(), "styled(San) produced text for the illegal move {}", m.uci());
        }
    }
    pos_features(r, stats);
    if interesting {
        stats.nontrivial(&r.rep_key());
    }
    Ok(())
}

fn format_case(case: &Value, stats: &mut Stats) -> CheckResult {
    match case_board(case, stats)? {
        Some((b, r)) => check_format(&b, &r, stats),
        None => Ok(()),
    }
}

// ------------------------------------------------------------------------------------------
// parsing soundness

#[derive(Debug, Clone, PartialEq)]
pub enum SanDesc {
    Piece { pc: Pc, file: Option<i8>, rank: Option<i8>, to: Sq },
    PawnPush { to: Sq, promo: Option<Pc> },
    PawnCapture { from_file: i8, to: Sq, promo: Option<Pc> },
    PawnShort { from_file: i8, to_file: i8, promo: Option<Pc> },
    CastleK,
    CastleQ,
    Coordinates(String),
    Unknown,
}

fn letter_pc(c: u8) -> Option<Pc> {
    match c {
        b'N' => Some(Pc::N),
        b'B' => Some(Pc::B),
        b'R' => Some(Pc::R),
        b'Q' => Some(Pc::Q),
        b'K' => Some(Pc::K),
        _ => None,
    }
}

/// Independent tokenizer for the SAN-like forms whose meaning is unambiguous; everything else is
/// `Unknown` (then only legality of the result is required).
pub fn tokenize_san(t: &str) -> SanDesc {
    if !t.is_ascii() {
        return SanDesc::Unknown;
    }
    let mut s = t;
    for suf in ["++", "+", "#"] {
        if let Some(x) = s.strip_suffix(suf) {
            s = x;
            break;
        }
    }
    match s {
        "O-O" | "0-0" => return SanDesc::CastleK,
        "O-O-O" | "0-0-0" => return SanDesc::CastleQ,
        _ => {}
    }
    let b = s.as_bytes();
    let is_file = |c: u8| (b'a'..=b'h').contains(&c);
    let is_rank = |c: u8| (b'1'..=b'8').contains(&c);
    // coordinate notation
    if (b.len() == 4 || b.len() == 5) && is_file(b[0]) && is_rank(b[1]) && is_file(b[2]) && is_rank(b[3]) && (b.len() == 4 || b"nbrq".contains(&b[4])) {
        return SanDesc::Coordinates(s.to_string());
    }
    if b.is_empty() {
        return SanDesc::Unknown;
    }
    if let Some(pc) = letter_pc(b[0]) {
        let rest = &b[1..];
        if rest.len() < 2 {
            return SanDesc::Unknown;
        }
        let (mid, dst) = rest.split_at(rest.len() - 2);
        let to = match parse_sq(std::str::from_utf8(dst).unwrap()) {
            Some(x) => x,
            None => return SanDesc::Unknown,
        };
        let mut i = 0;
        let mut file = None;
        let mut rank = None;
        if i < mid.len() && is_file(mid[i]) {
            file = Some((mid[i] - b'a') as i8);
            i += 1;
        }
        if i < mid.len() && is_rank(mid[i]) {
            rank = Some((mid[i] - b'1') as i8);
            i += 1;
        }
        if i < mid.len() && (mid[i] == b'x' || mid[i] == b':') {
            i += 1;
        }
        if i != mid.len() {
            return SanDesc::Unknown;
        }
        return SanDesc::Piece { pc, file, rank, to };
    }
    // pawn forms
    let (promo, body) = match b.split_last() {
        Some((c, rest)) if b"NBRQ".contains(c) => {
            let rest = if rest.last() == Some(&b'=') { &rest[..rest.len() - 1] } else { rest };
            (letter_pc(*c), rest)
        }
        _ => (None, b),
    };
    match body.len() {
        2 if is_file(body[0]) && is_rank(body[1]) => SanDesc::PawnPush { to: parse_sq(std::str::from_utf8(body).unwrap()).unwrap(), promo },
        2 if is_file(body[0]) && is_file(body[1]) => SanDesc::PawnShort { from_file: (body[0] - b'a') as i8, to_file: (body[1] - b'a') as i8, promo },
        4 if is_file(body[0]) && (body[1] == b'x' || body[1] == b':') && is_file(body[2]) && is_rank(body[3]) => {
            SanDesc::PawnCapture { from_file: (body[0] - b'a') as i8, to: parse_sq(std::str::from_utf8(&body[2..]).unwrap()).unwrap(), promo }
        }
        _ => SanDesc::Unknown,
    }
}

fn promo_of(m: &RefMove) -> Option<Pc> {
    if let Kind::Promo(p) = m.kind {
        Some(p)
    } else {
        None
    }
}

/// Does the legal move `m` agree with the piece, destination, origin hints and promotion written in the text?
pub fn agrees(d: &SanDesc, m: &RefMove, r: &RefPos) -> bool {
    match d {
        SanDesc::Piece { pc, file, rank, to } => {
            m.man.1 == *pc
                && m.kind == Kind::Simple
                && m.to == *to
                && file.map_or(true, |f| file_of(m.from) == f)
                && rank.map_or(true, |x| rank_of(m.from) == x)
        }
        SanDesc::PawnPush { to, promo } => m.man.1 == Pc::P && m.to == *to && file_of(m.from) == file_of(m.to) && promo_of(m) == *promo,
        SanDesc::PawnCapture { from_file, to, promo } => {
            m.man.1 == Pc::P && m.to == *to && file_of(m.from) == *from_file && r.is_capture(m) && promo_of(m) == *promo
        }
        SanDesc::PawnShort { from_file, to_file, promo } => {
            m.man.1 == Pc::P && file_of(m.from) == *from_file && file_of(m.to) == *to_file && r.is_capture(m) && promo_of(m) == *promo
        }
        SanDesc::CastleK => m.kind == Kind::CastleK,
        SanDesc::CastleQ => m.kind == Kind::CastleQ,
        SanDesc::Coordinates(s) => m.uci() == *s,
        SanDesc::Unknown => true,
    }
}

pub fn check_text(b: &Board, r: &RefPos, l: &[RefMove], text: &str, stats: &mut Stats) -> CheckResult {
    let desc = tokenize_san(text);
    let res = Move::from_san(text, b);
    // the two-step route must agree with the one-step route
    let two_step = match san::Move::from_str(text) {
        Ok(p) => Some(p.into_move(b)),
        Err(_) => None,
    };
    match (&res, &two_step) {
        (Ok(a), Some(Ok(bm))) => ensure!(a == bm, "from_san and from_str + into_move disagree on {:?}", text),
        (Err(ParseError::Parse(_)), None) => {}
        (Err(ParseError::Convert(_)), Some(Err(_))) => {}
        _ => fail!("from_san and from_str + into_move disagree about acceptance of {:?}", text),
    }
    let cands: Vec<&RefMove> = if desc == SanDesc::Unknown { Vec::new() } else { l.iter().filter(|m| agrees(&desc, m, r)).collect() };
    match res {
        Ok(x) => {
            let rm = match mv_from_lib(&x) {
                Some(m) => m,
                None => fail!("from_san({:?}) returned the null move", text),
            };
            ensure!(l.contains(&rm), "from_san({:?}) returned {} which is not legal", text, mv_desc(&x));
            ensure!(agrees(&desc, &rm, r), "from_san({:?}) returned {:?}/{} which does not match the text ({:?})", text, rm.kind, rm.uci(), desc);
            if desc != SanDesc::Unknown {
                ensure!(
                    cands.len() == 1,
                    "from_san({:?}) chose {} although {} legal moves agree with the text: {:?}",
                    text, rm.uci(), cands.len(), cands.iter().map(|m| m.uci()).collect::<Vec<_>>()
                );
            }
            stats.label("accepted");
            if rm.kind != Kind::Simple {
                stats.label("accepted_special");
            }
        }
        Err(ParseError::Convert(IntoMoveError::Ambiguity(a, bm))) => {
            ensure!(a != bm, "Ambiguity reports the same move twice");
            for m in [a, bm] {
                let rm = mv_from_lib(&m).ok_or_else(|| Failure::new("Ambiguity carries a null move"))?;
                ensure!(l.contains(&rm), "Ambiguity candidate {} is not legal", mv_desc(&m));
                ensure!(agrees(&desc, &rm, r), "Ambiguity candidate {} does not match the text {:?}", mv_desc(&m), text);
            }
            ensure!(cands.len() >= 2 || desc == SanDesc::Unknown, "Ambiguity reported for {:?} but only {} legal move(s) agree", text, cands.len());
            stats.label("ambiguity_reported");
        }
        Err(ParseError::Convert(_)) => {
            stats.label("refused_by_position");
            if cands.len() >= 2 {
                stats.label("ambiguous_refused_other_error");
            }
        }
        Err(ParseError::Parse(_)) => stats.label("refused_by_syntax"),
    }
    Ok(())
}

fn gen_text_case(cur: &mut Cursor) -> Value {
    let (p, src) = gen_san_position(cur);
    let n = 1 + cur.below(6);
    let l = p.legal();
    let mut texts: Vec<String> = Vec::new();
    for _ in 0..n {
        let t = match cur.below(8) {
            0..=3 => grammar_san(cur, &p).text(),
            4 | 5 => {
                if l.is_empty() {
                    alphabet_string(cur, MOVE_ALPHABET, 8)
                } else {
                    let m = l[cur.below(l.len())];
                    let s = p.san(&m, &l);
                    mutate(cur, &s, MOVE_ALPHABET)
                }
            }
            6 if cur.chance(85) && !l.is_empty() => {
                // SAN text of a move that only the king's safety forbids (pinned man, unanswered check), if there is one
                let ps = p.pseudo_legal();
                let bad: Vec<RefMove> = ps.iter().filter(|m| !l.contains(m)).cloned().collect();
                if bad.is_empty() {
                    grammar_san(cur, &p).text()
                } else {
                    let m = bad[cur.below(bad.len())];
                    let full = p.san(&m, &ps);
                    // mostly without hints: the text a player would write if the move were allowed
                    if cur.bool() && m.man.1 != Pc::P {
                        let dst = sq_name(m.to);
                        format!("{}{}{}", m.man.1.letter(), if p.is_capture(&m) { "x" } else { "" }, dst)
                    } else {
                        full
                    }
                }
            }
            6 => {
                if cur.bool() || l.is_empty() {
                    alphabet_string(cur, MOVE_ALPHABET, 8)
                } else {
                    // coordinate text of a (possibly illegal) pseudo-legal move, possibly with a suffix
                    let s = p.pseudo_legal();
                    format!("{}{}", s[cur.below(s.len())].uci(), cur.pick(&["", "", "+", "#"]))
                }
            }
            7 if cur.bool() => {
                // castling spellings, whether or not castling is possible
                format!("{}{}", cur.pick(&["O-O", "O-O-O", "0-0", "0-0-0", "O-O", "O-O-O"]), cur.pick(&["", "", "+", "#"]))
            }
            _ => {
                // short pawn captures and other terse forms
                let f1 = (b'a' + cur.below(8) as u8) as char;
                let f2 = (b'a' + cur.below(8) as u8) as char;
                let pr = cur.pick(&["", "", "Q", "=N", "R", "=B"]);
                format!("{}{}{}", f1, f2, pr)
            }
        };
        texts.push(t);
    }
    crate::common::with_twin(cur, json!({"fen": p.fen(), "src": src, "texts": texts}))
}

fn text_case(case: &Value, stats: &mut Stats) -> CheckResult {
    let (b, r) = match case_board(case, stats)? {
        Some(x) => x,
        None => return Ok(()),
    };
    let l = r.legal();
    let mut nt = false;
    if let Some(ts) = case["texts"].as_array() {
        for t in ts {
            let t = t.as_str().unwrap_or("");
            check_text(&b, &r, &l, t, stats)?;
            let d = tokenize_san(t);
            if d != SanDesc::Unknown {
                stats.label("tokenized");
                nt = true;
            }
            if let SanDesc::PawnShort { .. } = d {
                stats.label("short_capture_text");
            }
            if matches!(d, SanDesc::CastleK | SanDesc::CastleQ) {
                stats.label("castling_text");
                let semi_only = r.pseudo_legal().iter().any(|m| agrees(&d, m, &r)) && !l.iter().any(|m| agrees(&d, m, &r));
                stats.label_if(semi_only, "castling_text_refused_by_position");
            }
            stats.add("texts_checked", 1);
        }
    }
    if nt {
        stats.nontrivial(&(r.rep_key(), case["texts"].to_string()));
    }
    Ok(())
}

/// All 64 two-file texts ("ab", "ha", ...), with and without a promotion suffix, on positions rich in en-passant
/// marks and promotions: the abbreviated pawn-capture resolver sees every file pair, including the board edges.
fn gen_short_case(cur: &mut Cursor) -> Value {
    let which = cur.pick(&[3usize, 11, 12, 5, 3, 11]);
    let (p, src) = gen_position_from(cur, which);
    crate::common::with_twin(cur, json!({"fen": p.fen(), "src": src}))
}

fn short_case(case: &Value, stats: &mut Stats) -> CheckResult {
    let (b, r) = match case_board(case, stats)? {
        Some(x) => x,
        None => return Ok(()),
    };
    let l = r.legal();
    for f1 in 0..8u8 {
        for f2 in 0..8u8 {
            for suf in ["", "=Q", "N"] {
                let t = format!("{}{}{}", (b'a' + f1) as char, (b'a' + f2) as char, suf);
                check_text(&b, &r, &l, &t, stats)?;
            }
        }
    }
    stats.label_if(r.ep.is_some(), "ep_mark");
    stats.label_if(r.ep.map_or(false, |s| file_of(s) == 0 || file_of(s) == 7), "ep_mark_on_edge_file");
    stats.add("texts_checked", 192);
    if r.ep.is_some() || l.iter().any(|m| matches!(m.kind, Kind::Promo(_))) {
        stats.nontrivial(&r.rep_key());
    }
    Ok(())
}

/// Documented acceptable variants of a legal move's text must resolve to exactly that move
/// (over-disambiguation, omitted capture mark, omitted '=', short pawn capture when unique).
fn variants_case(case: &Value, stats: &mut Stats) -> CheckResult {
    let (b, r) = match case_board(case, stats)? {
        Some(x) => x,
        None => return Ok(()),
    };
    let l = r.legal();
    for m in &l {
        let mv = mv_to_lib(m).map_err(Failure::new)?;
        let canon = r.san(m, &l);
        let body = canon.trim_end_matches(['+', '#']).to_string();
        let mut vars: Vec<(String, &'static str)> = Vec::new();
        // (texts with a check suffix that does not match the position are accepted by the parser today, but no
        // test or document promises it: they are covered by the only-if direction in parse_soundness)
        vars.push((canon.clone(), "canonical"));
        if m.man.1 != Pc::P && m.kind == Kind::Simple {
            let cap = if r.b[m.to as usize].is_some() { "x" } else { "" };
            let l1 = m.man.1.letter();
            let ff = (b'a' + file_of(m.from) as u8) as char;
            let rr = (b'1' + rank_of(m.from) as u8) as char;
            vars.push((format!("{}{}{}{}{}", l1, ff, rr, cap, sq_name(m.to)), "over_disambiguated"));
            // file-only / rank-only hints are fine when they single the move out
            let same_file = l.iter().any(|o| o.man == m.man && o.to == m.to && o.from != m.from && file_of(o.from) == file_of(m.from));
            let same_rank = l.iter().any(|o| o.man == m.man && o.to == m.to && o.from != m.from && rank_of(o.from) == rank_of(m.from));
            if !same_file {
                vars.push((format!("{}{}{}{}", l1, ff, cap, sq_name(m.to)), "file_hint_variant"));
            }
            if !same_rank {
                vars.push((format!("{}{}{}{}", l1, rr, cap, sq_name(m.to)), "rank_hint_variant"));
            }
            if !cap.is_empty() {
                vars.push((body.replace('x', ""), "omitted_capture_mark"));
            }
        }
        if let Kind::Promo(_) = m.kind {
            vars.push((body.replace('=', ""), "omitted_equals"));
        }
        if m.man.1 == Pc::P && r.is_capture(m) {
            let short_cands = l
                .iter()
                .filter(|o| o.man.1 == Pc::P && r.is_capture(o) && file_of(o.from) == file_of(m.from) && file_of(o.to) == file_of(m.to) && promo_of(o) == promo_of(m))
                .count();
            if short_cands == 1 {
                let mut t = format!("{}{}", (b'a' + file_of(m.from) as u8) as char, (b'a' + file_of(m.to) as u8) as char);
                if let Kind::Promo(p) = m.kind {
                    t.push('=');
                    t.push(p.letter());
                }
                vars.push((t, "short_capture"));
            }
        }
        for (t, label) in vars {
            match Move::from_san(&t, &b) {
                Ok(x) => ensure!(x == mv, "variant {:?} of {} resolved to {}", t, canon, mv_desc(&x)),
                Err(e) => fail!("documented variant {:?} ({}) of the legal move {} was refused: {}", t, label, canon, e),
            }
            stats.label(label);
        }
    }
    if !l.is_empty() {
        stats.nontrivial(&r.rep_key());
    }
    Ok(())
}

pub fn property() -> Property {
    Property {
        id: "C09",
        rule: "format: valid positions (20 sources + a SAN family with 2-5 same-type pieces converging on one square, pins and victims) x \
               every reference-legal move: Move::san / styled(San) equal the reference SAN writer (PGN rules: minimal file->rank->both hints \
               among legal moves, x, =Q, O-O, +/# from the successor), SanUtf8 equals the glyph rendering, texts of distinct moves differ, \
               from_san(text) returns the same move; illegal semilegal moves have no SAN. parse_soundness: positions x grammar-built SAN \
               (meaning known by construction, perturbed piece/destination/hints/promotion/capture mark), mutated canonical SAN, terse pawn \
               captures and alphabet strings: Ok(x) => x is legal, agrees with piece/destination/hints/promotion read by an independent \
               tokenizer, and is the only legal move that agrees; Ambiguity(a,b) => a != b both legal and agreeing. \
               short_captures_all_file_pairs: all 64 two-file texts x 3 promotion suffixes on en-passant / promotion positions, same oracle. variants: documented \
               spellings (over-disambiguation, unique single hints, omitted x, omitted =, unique short capture) must resolve to exactly that move. Non-trivial = position with a hint / check mark / excluded pinned \
               candidate (format), tokenizable text (parse).",
        assumptions: &[
            "reference SAN writer follows the PGN standard; reference legal set validated by perft",
            "acceptance ('if' direction) is demanded only for spellings exercised by the repository's own tests",
        ],
        subchecks: vec![
            SubCheck {
                name: "format",
                driver: Driver::Generated { gen: gen_san_pos_case, genome_len: 224, quick: 600_000, thorough: 4_800_000 },
                check: format_case,
                configs: Configs::ReleaseOnly,
                required: &["file_hint", "rank_hint", "both_hints", "pinned_candidate_excluded", "check_mark", "mate_mark", "promotion", "en_passant", "castling", "check_with_only_ep_replies"],
                regressions: &[
                    r#"{"fen":"8/8/8/K2Pp2r/8/8/8/7k w - e6 0 1","src":"regression_D1"}"#,
                ],
                exhaustive: false,
            },
            SubCheck {
                name: "parse_soundness",
                driver: Driver::Generated { gen: gen_text_case, genome_len: 320, quick: 1_500_000, thorough: 12_000_000 },
                check: text_case,
                configs: Configs::Both,
                required: &["accepted", "accepted_special", "ambiguity_reported", "refused_by_position", "refused_by_syntax", "short_capture_text", "castling_text", "castling_text_refused_by_position"],
                regressions: &[
                    r#"{"fen":"8/8/8/K2Pp2r/8/8/8/7k w - e6 0 1","src":"regression_D1","texts":["de","dxe6","d5e6"]}"#,
                    r#"{"fen":"rnbqkbnr/pppppppp/8/8/8/8/PPPPPPPP/RNBQKBNR w KQkq - 0 1","src":"regression_D2","texts":["N","R+","Nx","Q#","€","N€","aé4","e2eé"]}"#,
                ],
                exhaustive: false,
            },
            SubCheck {
                name: "short_captures_all_file_pairs",
                driver: Driver::Generated { gen: gen_short_case, genome_len: 224, quick: 180_000, thorough: 1_500_000 },
                check: short_case,
                configs: Configs::Both,
                required: &["ep_mark_on_edge_file", "accepted", "ambiguity_reported"],
                regressions: &[],
                exhaustive: false,
            },
            SubCheck {
                name: "variants",
                driver: Driver::Generated { gen: gen_san_pos_case, genome_len: 224, quick: 360_000, thorough: 2_880_000 },
                check: variants_case,
                configs: Configs::ReleaseOnly,
                required: &["over_disambiguated", "omitted_capture_mark", "omitted_equals", "short_capture", "file_hint_variant", "rank_hint_variant"],
                regressions: &[],
                exhaustive: false,
            },
        ],
    }
}
