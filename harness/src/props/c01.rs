//! C01 — legal move generation is exactly the rules of chess.

use crate::common::*;
use crate::conv::*;
use crate::engine::*;
use crate::refmodel::*;
use crate::{ensure, fail};
use owlchess::movegen::{legal, semilegal};
use owlchess::moves::make::TryUnchecked;
use owlchess::moves::{make_move_unchecked, unmake_move_unchecked};
use owlchess::{Board, Make, Move};
use serde_json::{json, Value};

pub fn check_position(b: &Board, r: &RefPos, stats: &mut Stats, all_moves: bool) -> CheckResult {
    let l_ref = r.legal();
    let s_ref = r.pseudo_legal();

    // (1) full legal generator
    let l_lib = lib_moves_to_ref(&legal::gen_all(b))?;
    if let Some(d) = diff_moves(&l_lib, &l_ref) {
        fail!("legal::gen_all differs from the rules: {}", d);
    }

    // (2) partial generators
    let is_promo = |m: &RefMove| matches!(m.kind, Kind::Promo(_));
    let caps: Vec<RefMove> = l_ref.iter().copied().filter(|m| r.is_capture(m)).collect();
    let simple: Vec<RefMove> = l_ref.iter().copied().filter(|m| !r.is_capture(m)).collect();
    let simple_np: Vec<RefMove> = simple.iter().copied().filter(|m| !is_promo(m)).collect();
    let simple_p: Vec<RefMove> = simple.iter().copied().filter(|m| is_promo(m)).collect();
    for (name, got, want) in [
        ("gen_capture", legal::gen_capture(b), &caps),
        ("gen_simple", legal::gen_simple(b), &simple),
        ("gen_simple_no_promote", legal::gen_simple_no_promote(b), &simple_np),
        ("gen_simple_promote", legal::gen_simple_promote(b), &simple_p),
    ] {
        let got = lib_moves_to_ref(&got)?;
        if let Some(d) = diff_moves(&got, want) {
            fail!("legal::{} differs from the corresponding subset: {}", name, d);
        }
    }

    // (3a) validate() on every well-formed move
    let mut accepted = 0usize;
    // exhaustive families use the union of both pseudo-legal sets instead of all 7,781 moves
    let light: Vec<Move>;
    let candidates: &[Move] = if all_moves {
        all_wellformed()
    } else {
        let mut v: Vec<Move> = semilegal::gen_all(b).iter().copied().collect();
        for rm in &s_ref {
            let m = mv_to_lib(rm).map_err(Failure::new)?;
            if !v.contains(&m) {
                v.push(m);
            }
        }
        light = v;
        &light
    };
    for m in candidates {
        let ok = m.validate(b).is_ok();
        let want = match mv_from_lib(m) {
            Some(rm) => l_ref.contains(&rm),
            None => false,
        };
        if ok {
            accepted += 1;
        }
        ensure!(ok == want, "Move::validate({}) = {} but reference legality = {}", mv_desc(m), ok, want);
    }
    ensure!(accepted == l_ref.len(), "validate accepted {} moves, reference has {}", accepted, l_ref.len());

    // (3b) the unsafe deciders, on moves that are semilegal for both the library and the reference
    let s_lib: Vec<Move> = semilegal::gen_all(b).iter().copied().collect();
    for m in &s_lib {
        let rm = match mv_from_lib(m) {
            Some(x) => x,
            None => continue,
        };
        if !s_ref.contains(&rm) {
            continue; // C06 reports this difference
        }
        let want = l_ref.contains(&rm);
        let a = unsafe { m.is_legal_unchecked(b) };
        ensure!(a == want, "is_legal_unchecked({}) = {} but reference legality = {}", mv_desc(m), a, want);
        let t = unsafe { TryUnchecked::new(*m) }.make(b).is_ok();
        ensure!(t == want, "TryUnchecked::make({}) accepted = {} but reference legality = {}", mv_desc(m), t, want);
        let mut c = b.clone();
        let u = unsafe { make_move_unchecked(&mut c, *m) };
        let att = c.is_opponent_king_attacked();
        unsafe { unmake_move_unchecked(&mut c, *m, u) };
        ensure!(!att == want, "make + king test on {} says legal = {} but reference legality = {}", mv_desc(m), !att, want);
    }

    // classification
    pos_features(r, stats);
    let pinned_or_illegal = s_ref.len() != l_ref.len();
    stats.label_if(pinned_or_illegal, "has_illegal_pseudolegal");
    let has_promo = s_ref.iter().any(is_promo);
    stats.label_if(has_promo, "promotion_available");
    stats.label_if(s_ref.iter().any(|m| m.kind == Kind::Ep), "ep_capture_pseudolegal");
    stats.label_if(
        s_ref.iter().any(|m| m.kind == Kind::Ep && !l_ref.contains(m)),
        "ep_capture_illegal",
    );
    stats.label_if(l_ref.iter().any(|m| matches!(m.kind, Kind::CastleK | Kind::CastleQ)), "castling_legal");
    stats.label_if(
        s_ref.iter().any(|m| matches!(m.kind, Kind::CastleK | Kind::CastleQ) && !l_ref.contains(m)),
        "castling_into_check",
    );
    stats.label_if(l_ref.is_empty(), "no_legal_moves");
    if pinned_or_illegal || r.in_check(r.side) || r.ep.is_some() || r.castle.iter().any(|x| *x) || has_promo {
        stats.nontrivial(&r.rep_key());
    }
    Ok(())
}

fn check_case(case: &Value, stats: &mut Stats) -> CheckResult {
    match case_board(case, stats)? {
        Some((b, r)) => check_position(&b, &r, stats, true),
        None => Ok(()),
    }
}

fn check_case_light(case: &Value, stats: &mut Stats) -> CheckResult {
    match case_board(case, stats)? {
        Some((b, r)) => check_position(&b, &r, stats, false),
        None => Ok(()),
    }
}

// ------------------------------------------------------------------------------------------
// published perft through the library's legal generator

fn lib_perft(b: &Board, depth: u32) -> u64 {
    let ms = legal::gen_all(b);
    if depth == 1 {
        return ms.len() as u64;
    }
    let mut n = 0;
    for m in ms.iter() {
        let nb = b.make_move(*m).expect("generated legal move refused");
        n += lib_perft(&nb, depth - 1);
    }
    n
}

fn perft_check(case: &Value, stats: &mut Stats) -> CheckResult {
    let fen = case["fen"].as_str().unwrap_or("");
    let depth = case["depth"].as_u64().unwrap_or(1) as u32;
    let want = case["nodes"].as_u64().unwrap_or(0);
    let r = ref_from_fen(fen).map_err(|e| Failure::new(format!("bad fen: {}", e)))?;
    let b = Board::try_from(raw_from_ref(&r)).map_err(|e| Failure::new(format!("gate refused perft position: {}", e)))?;
    let got = lib_perft(&b, depth);
    ensure!(got == want, "perft({}, {}) through legal::gen_all = {}, published {}", fen, depth, got, want);
    stats.nontrivial(&(fen.to_string(), depth));
    stats.add("perft_nodes", got);
    Ok(())
}

fn perft_driver(ctx: &RunCtx, stats: &mut Stats, rep: &mut Reporter) {
    let limit = if ctx.tier == Tier::Quick { 250_000 } else { 5_000_000 };
    let mut cases = Vec::new();
    for (_, fen, counts) in super::PERFT_POSITIONS {
        for (d, n) in counts.iter().enumerate() {
            if *n <= limit {
                cases.push(json!({"fen": fen, "depth": d + 1, "nodes": n}));
            }
        }
    }
    let cases = &cases;
    par_chunks(cases.len() as u64, stats, rep, |range, st, fails| {
        for i in range {
            let c = &cases[i as usize];
            match guarded("C01", "perft_published", perft_check, c, st) {
                Ok(()) => {}
                Err(f) => fails.push((c.clone(), f)),
            }
        }
    });
}

// ------------------------------------------------------------------------------------------
// exhaustive small families

/// Enumerates every valid placement of the two kings plus one more man (any colour and type),
/// both sides to move.
fn three_men_driver(ctx: &RunCtx, stats: &mut Stats, rep: &mut Reporter) {
    // quick: a fixed slice (white king on 8 squares); thorough: everything
    let wk_squares: Vec<u8> = if ctx.tier == Tier::Quick { vec![0, 27, 60] } else { (0..64).collect() };
    let men: Vec<Man> = [Col::W, Col::B].iter().flat_map(|c| [Pc::P, Pc::N, Pc::B, Pc::R, Pc::Q].map(|p| (*c, p))).collect();
    let wk_squares = &wk_squares;
    let men = &men;
    par_chunks(wk_squares.len() as u64 * 64, stats, rep, |range, st, fails| {
        for i in range {
            let wk = wk_squares[(i / 64) as usize];
            let bk = (i % 64) as u8;
            if wk == bk || ((file_of(wk) - file_of(bk)).abs() <= 1 && (rank_of(wk) - rank_of(bk)).abs() <= 1) {
                continue;
            }
            for &m in men.iter() {
                for s in 0..64u8 {
                    if s == wk || s == bk || (m.1 == Pc::P && (rank_of(s) == 0 || rank_of(s) == 7)) {
                        continue;
                    }
                    for side in [Col::W, Col::B] {
                        let mut p = RefPos::empty();
                        p.b[wk as usize] = Some((Col::W, Pc::K));
                        p.b[bk as usize] = Some((Col::B, Pc::K));
                        p.b[s as usize] = Some(m);
                        p.side = side;
                        if !p.is_valid() {
                            continue;
                        }
                        let case = json!({"fen": p.fen(), "src": "three_men"});
                        if let Err(f) = guarded("C01", "three_men_exhaustive", check_case_light, &case, st) {
                            if fails.len() < 4 {
                                fails.push((case, f));
                            }
                        }
                    }
                }
            }
        }
    });
}

/// En-passant family, enumerated: marked black pawn on the 5th rank, white capturer beside it,
/// both kings anywhere, one black line piece anywhere (5 men); colour-mirrored as well.
fn ep_family_driver(ctx: &RunCtx, stats: &mut Stats, rep: &mut Reporter) {
    let quick = ctx.tier == Tier::Quick;
    // (file of victim, side of capturer)
    let mut shapes: Vec<(i8, i8)> = Vec::new();
    for f in 0..8i8 {
        for d in [-1i8, 1] {
            if (0..8).contains(&(f + d)) {
                shapes.push((f, d));
            }
        }
    }
    let shapes = &shapes;
    par_chunks(shapes.len() as u64 * 64, stats, rep, |range, st, fails| {
        for i in range {
            let (f, d) = shapes[(i / 64) as usize];
            let wk = (i % 64) as u8;
            let victim = mk_sq(f, 4).unwrap();
            let capt = mk_sq(f + d, 4).unwrap();
            let behind = mk_sq(f, 5).unwrap();
            if wk == victim || wk == capt || wk == behind {
                continue;
            }
            if quick {
                // relevant geometry only: king on the 5th rank or on a line through either pawn
                let on_line = |a: u8, b: u8| {
                    let (df, dr) = ((file_of(a) - file_of(b)).abs(), (rank_of(a) - rank_of(b)).abs());
                    df == 0 || dr == 0 || df == dr
                };
                if !(on_line(wk, victim) || on_line(wk, capt)) {
                    continue;
                }
            }
            for bk in 0..64u8 {
                if bk == wk || bk == victim || bk == capt || bk == behind {
                    continue;
                }
                if (file_of(wk) - file_of(bk)).abs() <= 1 && (rank_of(wk) - rank_of(bk)).abs() <= 1 {
                    continue;
                }
                if quick && bk % 9 != 0 {
                    continue;
                }
                for pc in [Pc::R, Pc::B, Pc::Q] {
                    for s in 0..64u8 {
                        if s == wk || s == bk || s == victim || s == capt || s == behind {
                            continue;
                        }
                        let mut p = RefPos::empty();
                        p.b[wk as usize] = Some((Col::W, Pc::K));
                        p.b[bk as usize] = Some((Col::B, Pc::K));
                        p.b[victim as usize] = Some((Col::B, Pc::P));
                        p.b[capt as usize] = Some((Col::W, Pc::P));
                        p.b[s as usize] = Some((Col::B, pc));
                        p.side = Col::W;
                        p.ep = Some(victim);
                        if !p.is_valid() {
                            continue;
                        }
                        for flip in [false, true] {
                            let q = if flip { crate::gen::positions::flip_colors(&p) } else { p.clone() };
                            let case = json!({"fen": q.fen(), "src": "ep_enumerated"});
                            if let Err(fl) = guarded("C01", "ep_family_exhaustive", check_case_light, &case, st) {
                                if fails.len() < 4 {
                                    fails.push((case, fl));
                                }
                            }
                        }
                    }
                }
            }
        }
    });
}

fn pair_check(case: &Value, stats: &mut Stats) -> CheckResult {
    run_pair(case, stats, check_case)
}

fn pair_driver(ctx: &RunCtx, stats: &mut Stats, rep: &mut Reporter) {
    half_key_driver("C01", pair_check, ctx, stats, rep)
}

pub fn property() -> Property {
    Property {
        id: "C01",
        rule: "Valid positions decoded from byte genomes by 17 constructive sources (sparse, dense, reference-legal playouts, \
               en-passant/castling/promotion/pin/mate/material families, many-queens, mutated corpus FENs; colour-mirrored half of \
               the time), plus exhaustive 3-man positions and an enumerated 5-man en-passant family, plus published perft counts. \
               Oracle: independent mailbox reference model (validated against published perft in the same run): legal::gen_* \
               multisets equal the reference sets; validate() agrees on all 7,781 well-formed moves; is_legal_unchecked, \
               TryUnchecked::make and make+king-test agree on every semilegal move. Non-trivial = position with an illegal \
               pseudo-legal move, or in check, or with an ep mark / castling right / promotion available; distinct by \
               (squares, side, rights, mark).",
        assumptions: &[
            "reference model is correct (cross-checked against published perft counts for 6 positions in this run)",
            "sampling: absence of violations is established only on the exhaustive families",
        ],
        subchecks: vec![
            SubCheck {
                name: "perft_published",
                driver: Driver::Custom { run: perft_driver },
                check: perft_check,
                configs: Configs::ReleaseOnly,
                required: &[],
                regressions: &[],
                exhaustive: false,
            },
            SubCheck {
                name: "generated_positions",
                driver: Driver::Generated { gen: gen_pos_case, genome_len: 192, quick: 300_000, thorough: 8_000_000 },
                check: check_case,
                configs: Configs::Both,
                required: &["in_check", "ep_capture_illegal", "castling_legal", "promotion_available", "has_illegal_pseudolegal", "black_to_move"],
                regressions: &[
                    r#"{"fen":"8/8/8/K2Pp2r/8/8/8/7k w - e6 0 1","src":"regression_D1"}"#,
                    r#"{"fen":"8/8/8/8/k2pP2R/8/8/7K b - e3 0 1","src":"regression_D1"}"#,
                    r#"{"fen":"8/2p5/3p4/KP5r/1R3p1k/8/4P1P1/8 w - - 0 1","src":"regression_D1"}"#,
                ],
                exhaustive: false,
            },
            SubCheck {
                name: "three_men_exhaustive",
                driver: Driver::Custom { run: three_men_driver },
                check: check_case_light,
                configs: Configs::ReleaseOnly,
                required: &[],
                regressions: &[],
                exhaustive: true,
            },
            SubCheck {
                name: "ep_family_exhaustive",
                driver: Driver::Custom { run: ep_family_driver },
                check: check_case_light,
                configs: Configs::ReleaseOnly,
                required: &["ep_capture_illegal"],
                regressions: &[],
                exhaustive: true,
            },
            SubCheck {
                name: "half_key_pairs",
                driver: Driver::Custom { run: pair_driver },
                check: pair_check,
                configs: Configs::ReleaseOnly,
                required: &["equal_low_half_of_the_key", "equal_high_half_of_the_key"],
                regressions: &[],
                exhaustive: false,
            },
        ],
    }
}
