//! Model-based histories over `MoveChain` (shared by C13, C14, C17): operation language,
//! generator, interpreter with a list-of-moves model.

use crate::common::*;
use crate::conv::*;
use crate::engine::{Failure, Stats};
use crate::gen::positions::gen_position;
use crate::gen::strings::{alphabet_string, MOVE_ALPHABET};
use crate::gen::Cursor;
use crate::refmodel::*;
use owlchess::chain::MoveChain;
use owlchess::moves::make::{San, Uci};
use owlchess::moves::{san, uci};
use owlchess::types::{DrawReason, Outcome, OutcomeFilter, WinReason};
use owlchess::{Board, Color, Move};
use serde_json::{json, Value};
use std::str::FromStr;

pub const DRAW_REASONS: [DrawReason; 8] = [
    DrawReason::Stalemate,
    DrawReason::InsufficientMaterial,
    DrawReason::Moves75,
    DrawReason::Repeat5,
    DrawReason::Moves50,
    DrawReason::Repeat3,
    DrawReason::Agreement,
    DrawReason::Unknown,
];
pub const WIN_REASONS: [WinReason; 7] = [
    WinReason::Checkmate,
    WinReason::TimeForfeit,
    WinReason::InvalidMove,
    WinReason::EngineError,
    WinReason::Resign,
    WinReason::Abandon,
    WinReason::Unknown,
];

/// All 22 outcome values.
pub fn all_outcomes() -> Vec<Outcome> {
    let mut v = Vec::new();
    for d in DRAW_REASONS {
        v.push(Outcome::Draw(d));
    }
    for c in [Color::White, Color::Black] {
        for w in WIN_REASONS {
            v.push(Outcome::Win { side: c, reason: w });
        }
    }
    v
}

pub const FILTERS: [OutcomeFilter; 3] = [OutcomeFilter::Force, OutcomeFilter::Strict, OutcomeFilter::Relaxed];

/// Operations; integer arguments are resolved against the current model state.
#[derive(Clone, Debug, PartialEq)]
pub enum Op {
    /// push the k-th legal move via route 0..5 (Move, Uci str, San str, uci::Move, san::Move, push_uci_list of one)
    PushLegal(u8, u8),
    /// push a move that returns a man to the square it left two plies ago (shuffling), else like PushLegal
    PushInverse(u8, u8),
    /// prefer captures / specials
    PushSpecial(u8, u8),
    /// push the k-th well-formed but illegal move (via Move), or its coordinate / a wrong SAN text
    PushIllegal(u16, u8),
    PushNull(u8),
    PushGarbage(String, u8),
    /// push_uci_list with n legal moves, optionally followed by a bad token
    PushList(Vec<u8>, Option<String>),
    Pop,
    SetOutcome(u8),
    ResetOutcome(Option<u8>),
    ClearOutcome,
    SetAuto(u8),
    Clone,
    /// push the null move through the unchecked entry point (only when not in check, as its contract demands)
    /// and pop it again: everything must be as before
    NullRoundTrip,
}

impl Op {
    pub fn to_json(&self) -> Value {
        match self {
            Op::PushLegal(k, v) => json!(["push_legal", k, v]),
            Op::PushInverse(k, v) => json!(["push_inverse", k, v]),
            Op::PushSpecial(k, v) => json!(["push_special", k, v]),
            Op::PushIllegal(k, v) => json!(["push_illegal", k, v]),
            Op::PushNull(v) => json!(["push_null", v]),
            Op::PushGarbage(s, v) => json!(["push_garbage", s, v]),
            Op::PushList(ks, bad) => json!(["push_list", ks, bad]),
            Op::Pop => json!(["pop"]),
            Op::SetOutcome(o) => json!(["set_outcome", o]),
            Op::ResetOutcome(o) => json!(["reset_outcome", o]),
            Op::ClearOutcome => json!(["clear_outcome"]),
            Op::SetAuto(f) => json!(["set_auto_outcome", f]),
            Op::Clone => json!(["clone"]),
            Op::NullRoundTrip => json!(["null_round_trip"]),
        }
    }
    pub fn from_json(v: &Value) -> Option<Op> {
        let a = v.as_array()?;
        let n = |i: usize| a.get(i).and_then(|x| x.as_u64()).unwrap_or(0);
        Some(match a.first()?.as_str()? {
            "push_legal" => Op::PushLegal(n(1) as u8, n(2) as u8),
            "push_inverse" => Op::PushInverse(n(1) as u8, n(2) as u8),
            "push_special" => Op::PushSpecial(n(1) as u8, n(2) as u8),
            "push_illegal" => Op::PushIllegal(n(1) as u16, n(2) as u8),
            "push_null" => Op::PushNull(n(1) as u8),
            "push_garbage" => Op::PushGarbage(a.get(1)?.as_str()?.to_string(), n(2) as u8),
            "push_list" => Op::PushList(
                a.get(1)?.as_array()?.iter().map(|x| x.as_u64().unwrap_or(0) as u8).collect(),
                a.get(2).and_then(|x| x.as_str()).map(|s| s.to_string()),
            ),
            "pop" => Op::Pop,
            "set_outcome" => Op::SetOutcome(n(1) as u8),
            "reset_outcome" => Op::ResetOutcome(a.get(1).and_then(|x| x.as_u64()).map(|x| x as u8)),
            "clear_outcome" => Op::ClearOutcome,
            "set_auto_outcome" => Op::SetAuto(n(1) as u8),
            "clone" => Op::Clone,
            "null_round_trip" => Op::NullRoundTrip,
            _ => return None,
        })
    }
}

#[derive(Clone, Copy, PartialEq, Eq, Debug)]
pub enum Bias {
    /// balanced mix (C13)
    Mixed,
    /// repetitions, pops, look-alikes (C14)
    Shuffle,
    /// mostly accepted pushes (C17)
    Play,
}

pub fn gen_op(cur: &mut Cursor, bias: Bias) -> Op {
    let sel = cur.u8();
    let k = cur.u8();
    let via = cur.below(7) as u8;
    match bias {
        Bias::Mixed => match sel {
            0..=79 => Op::PushLegal(k, via),
            80..=99 => Op::PushSpecial(k, via),
            100..=119 => Op::PushIllegal(cur.u16(), cur.below(5) as u8),
            120..=127 => Op::PushNull(cur.below(3) as u8),
            128..=143 => Op::PushGarbage(alphabet_string(cur, MOVE_ALPHABET, 7), cur.below(2) as u8),
            144..=159 => {
                let n = cur.below(4);
                let ks = (0..n).map(|_| cur.u8()).collect();
                let bad = if cur.chance(100) { Some(alphabet_string(cur, MOVE_ALPHABET, 5)) } else { None };
                Op::PushList(ks, bad)
            }
            160..=204 => Op::Pop,
            205..=216 => Op::SetOutcome(cur.below(22) as u8),
            217..=226 => Op::ResetOutcome(if cur.bool() { Some(cur.below(22) as u8) } else { None }),
            227..=236 => Op::ClearOutcome,
            237..=246 => Op::SetAuto(cur.below(3) as u8),
            247..=250 => Op::NullRoundTrip,
            _ => Op::Clone,
        },
        Bias::Shuffle => match sel {
            0..=119 => Op::PushInverse(k, via),
            120..=159 => Op::PushLegal(k, via),
            160..=174 => Op::PushSpecial(k, via),
            175..=214 => Op::Pop,
            215..=234 => Op::SetAuto(cur.below(3) as u8),
            235..=244 => Op::ClearOutcome,
            245..=250 => Op::PushIllegal(cur.u16(), 0),
            _ => Op::Clone,
        },
        Bias::Play => match sel {
            0..=159 => Op::PushLegal(k, via),
            160..=209 => Op::PushSpecial(k, via),
            210..=229 => Op::Pop,
            230..=239 => Op::PushIllegal(cur.u16(), 0),
            240..=249 => Op::SetAuto(cur.below(3) as u8),
            _ => Op::ClearOutcome,
        },
    }
}

/// Start positions for histories: general sources, few-men positions and openings; clocks near the limits.
pub fn gen_history_start(cur: &mut Cursor, bias: Bias) -> (RefPos, &'static str) {
    let (mut p, src) = match cur.below(8) {
        0 | 1 => (RefPos::initial(), "initial"),
        2 => crate::gen::positions::gen_position_from(cur, 0),
        3 => crate::gen::positions::gen_position_from(cur, 2),
        4 => crate::gen::positions::gen_position_from(cur, 4),
        _ => gen_position(cur),
    };
    if bias == Bias::Shuffle && cur.chance(100) {
        p.half = cur.pick(&[90u16, 95, 97, 140, 145, 147, 0, 0]);
    }
    (p, src)
}

pub fn gen_history_case(cur: &mut Cursor, bias: Bias, max_ops: usize) -> Value {
    let (p, src) = gen_history_start(cur, bias);
    let n = 1 + cur.below(max_ops);
    let ops: Vec<Value> = (0..n).map(|_| gen_op(cur, bias).to_json()).collect();
    crate::common::with_twin(cur, json!({"fen": p.fen(), "src": src, "ops": ops}))
}

pub fn case_ops(case: &Value) -> Vec<Op> {
    case.get("ops").and_then(|o| o.as_array()).map(|a| a.iter().filter_map(Op::from_json).collect()).unwrap_or_default()
}

/// Filter table written independently of `Outcome::passes`.
pub fn passes_table(o: &Outcome, f: OutcomeFilter) -> bool {
    let forced = matches!(o, Outcome::Win { reason: WinReason::Checkmate, .. } | Outcome::Draw(DrawReason::Stalemate));
    let mandatory = matches!(o, Outcome::Draw(DrawReason::InsufficientMaterial | DrawReason::Moves75 | DrawReason::Repeat5));
    let claimable = matches!(o, Outcome::Draw(DrawReason::Moves50 | DrawReason::Repeat3));
    match f {
        OutcomeFilter::Force => forced,
        OutcomeFilter::Strict => forced || mandatory,
        OutcomeFilter::Relaxed => forced || mandatory || claimable,
    }
}

pub struct ChainSim {
    pub chain: MoveChain,
    pub start_board: Board,
    pub positions: Vec<RefPos>,
    pub moves: Vec<RefMove>,
    pub outcome: Option<Outcome>,
    pub accepted: usize,
    pub refused: usize,
    pub pops: usize,
    pub pops_after_special: usize,
    pub outcome_ops: usize,
    pub skipped_precondition: usize,
    pub max_rep: usize,
}

fn f<T>(r: Result<T, String>) -> Result<T, Failure> {
    r.map_err(Failure::new)
}

impl ChainSim {
    pub fn new(b: &Board, r: &RefPos) -> ChainSim {
        ChainSim {
            chain: MoveChain::new(b.clone()),
            start_board: b.clone(),
            positions: vec![r.clone()],
            moves: Vec::new(),
            outcome: None,
            accepted: 0,
            refused: 0,
            pops: 0,
            pops_after_special: 0,
            outcome_ops: 0,
            skipped_precondition: 0,
            max_rep: 1,
        }
    }

    pub fn cur(&self) -> &RefPos {
        self.positions.last().unwrap()
    }

    /// occurrences of the current position (squares, side, rights, mark) in the game so far
    pub fn repetition_count(&self) -> usize {
        let k = self.cur().rep_key();
        self.positions.iter().filter(|p| p.rep_key() == k).count()
    }

    /// Cheap per-step comparison of the chain with the model.
    pub fn verify_state(&self) -> Result<(), Failure> {
        let c = &self.chain;
        if c.len() != self.moves.len() {
            return Err(Failure::new(format!("chain.len() = {} but {} moves were accepted", c.len(), self.moves.len())));
        }
        if c.is_empty() != self.moves.is_empty() {
            return Err(Failure::new("is_empty disagrees with len".to_string()));
        }
        if *c.outcome() != self.outcome || c.is_finished() != self.outcome.is_some() {
            return Err(Failure::new(format!("stored outcome {:?}, model {:?}", c.outcome(), self.outcome)));
        }
        if *c.startpos() != raw_from_ref(&self.positions[0]) {
            return Err(Failure::new("startpos() changed".to_string()));
        }
        let want = raw_from_ref(self.cur());
        if *c.last().raw() != want {
            return Err(Failure::new(format!(
                "current position {} differs from the replay of the accepted moves {}",
                c.last().as_fen(),
                self.cur().fen()
            )));
        }
        check_consistent(c.last(), "chain.last()")?;
        if let Some(m) = self.moves.last() {
            let got = c.get(c.len() - 1);
            if mv_from_lib(&got) != Some(*m) {
                return Err(Failure::new(format!("last recorded move {} differs from the accepted move {}", mv_desc(&got), m.uci())));
            }
        }
        Ok(())
    }

    /// Full comparison: move list, and replay through Board::make_move from the start.
    pub fn verify_full(&self) -> Result<Vec<Board>, Failure> {
        self.verify_state()?;
        let listed: Vec<Move> = self.chain.iter().collect();
        if listed.len() != self.moves.len() {
            return Err(Failure::new("iter() length differs".to_string()));
        }
        let mut boards = vec![self.start_board.clone()];
        for (i, m) in self.moves.iter().enumerate() {
            if mv_from_lib(&listed[i]) != Some(*m) || self.chain.get(i) != listed[i] || unsafe { self.chain.get_unchecked(i) } != listed[i] {
                return Err(Failure::new(format!("recorded move #{} is {} but the accepted move was {}", i, mv_desc(&listed[i]), m.uci())));
            }
            let nb = boards[i].make_move(listed[i]).map_err(|e| Failure::new(format!("replay: recorded move #{} refused: {}", i, e)))?;
            if *nb.raw() != raw_from_ref(&self.positions[i + 1]) {
                return Err(Failure::new(format!("replay position #{} differs from the model", i + 1)));
            }
            boards.push(nb);
        }
        let a = snapshot(self.chain.last());
        let b = snapshot(boards.last().unwrap());
        if a != b {
            return Err(Failure::new(format!("chain.last() differs from the replayed position: {}", snap_diff(&a, &b))));
        }
        Ok(boards)
    }

    fn select(&self, list: &[RefMove], k: u8) -> Option<RefMove> {
        if list.is_empty() {
            None
        } else {
            Some(list[(k as usize * list.len()) >> 8])
        }
    }

    /// Pushes the legal move `m` through the given route and checks that it is accepted.
    pub fn push_legal(&mut self, m: RefMove, via: u8, stats: &mut Stats) -> Result<(), Failure> {
        let mv = f(mv_to_lib(&m))?;
        let legal = self.cur().legal();
        let before_len = self.chain.len();
        let res: Result<(), String> = match via % 7 {
            0 => self.chain.push(mv).map_err(|e| e.to_string()),
            1 => self.chain.push(Uci(m.uci())).map_err(|e| e.to_string()),
            2 => self.chain.push(San(self.cur().san(&m, &legal))).map_err(|e| e.to_string()),
            3 => self.chain.push(uci::Move::from(mv)).map_err(|e| e.to_string()),
            4 => {
                let text = self.cur().san(&m, &legal);
                match san::Move::from_str(&text) {
                    Ok(sm) => self.chain.push(sm).map_err(|e| e.to_string()),
                    Err(e) => Err(format!("san::Move::from_str({:?}): {}", text, e)),
                }
            }
            5 => self.chain.push_uci_list(&m.uci()).map_err(|e| e.to_string()),
            _ => {
                // the unchecked entry point, within its contract: the move is legal and no outcome is stored
                unsafe { self.chain.push_unchecked(mv) };
                Ok(())
            }
        };
        if let Err(e) = res {
            return Err(Failure::new(format!("push of the legal move {:?}/{} via route {} was refused: {}", m.kind, m.uci(), via % 7, e)));
        }
        if self.chain.len() != before_len + 1 {
            return Err(Failure::new("accepted push did not add exactly one move".to_string()));
        }
        let np = self.cur().apply(&m);
        self.positions.push(np);
        self.moves.push(m);
        self.accepted += 1;
        stats.label(["via_move", "via_uci_str", "via_san_str", "via_uci_value", "via_san_value", "via_uci_list", "via_push_unchecked"][(via % 7) as usize]);
        let r = self.repetition_count();
        self.max_rep = self.max_rep.max(r);
        Ok(())
    }

    fn expect_refused<E: std::fmt::Display>(&mut self, res: Result<(), E>, what: &str, before: &Snapshot, before_len: usize) -> Result<(), Failure> {
        if res.is_ok() {
            return Err(Failure::new(format!("push of {} was accepted", what)));
        }
        let now = snapshot(self.chain.last());
        if now != *before || self.chain.len() != before_len {
            return Err(Failure::new(format!("refused push of {} changed the chain: {}", what, snap_diff(&now, before))));
        }
        self.refused += 1;
        Ok(())
    }

    pub fn apply(&mut self, op: &Op, stats: &mut Stats) -> Result<(), Failure> {
        let finished = self.outcome.is_some();
        match op {
            Op::PushLegal(..) | Op::PushInverse(..) | Op::PushSpecial(..) | Op::PushIllegal(..) | Op::PushNull(..) | Op::PushGarbage(..) | Op::PushList(..) | Op::SetOutcome(..) | Op::SetAuto(..)
                if finished =>
            {
                // documented precondition: these are only issued while no outcome is stored
                self.skipped_precondition += 1;
                return Ok(());
            }
            _ => {}
        }
        match op {
            Op::PushLegal(k, via) => {
                let l = self.cur().legal();
                if let Some(m) = self.select(&l, *k) {
                    self.push_legal(m, *via, stats)?;
                }
            }
            Op::PushSpecial(k, via) => {
                let l = self.cur().legal();
                let cur = self.cur().clone();
                let sp: Vec<RefMove> = l.iter().copied().filter(|m| m.kind != Kind::Simple || cur.is_capture(m) || m.man.1 == Pc::P).collect();
                let pool = if sp.is_empty() { &l } else { &sp };
                if let Some(m) = self.select(pool, *k) {
                    self.push_legal(m, *via, stats)?;
                }
            }
            Op::PushInverse(k, via) => {
                let l = self.cur().legal();
                let n = self.moves.len();
                let inv: Vec<RefMove> = if n >= 2 {
                    let prev = self.moves[n - 2];
                    l.iter().copied().filter(|m| m.from == prev.to && m.to == prev.from && m.kind == Kind::Simple).collect()
                } else {
                    Vec::new()
                };
                // otherwise prefer quiet piece moves so that the position can be repeated later
                let cur = self.cur().clone();
                let quiet: Vec<RefMove> = l.iter().copied().filter(|m| m.kind == Kind::Simple && m.man.1 != Pc::P && !cur.is_capture(m)).collect();
                let pool = if !inv.is_empty() {
                    &inv
                } else if !quiet.is_empty() {
                    &quiet
                } else {
                    &l
                };
                if let Some(m) = self.select(pool, *k) {
                    self.push_legal(m, *via, stats)?;
                }
            }
            Op::PushIllegal(k, via) => {
                let l = self.cur().legal();
                let before = snapshot(self.chain.last());
                let before_len = self.chain.len();
                let wf = all_wellformed();
                let mut idx = (*k as usize * wf.len()) >> 16;
                // find the next well-formed move that is not legal here
                let mut tries = 0;
                while tries < wf.len() {
                    let m = wf[idx % wf.len()];
                    let is_legal = mv_from_lib(&m).map_or(false, |rm| l.contains(&rm));
                    if !is_legal && m != Move::NULL {
                        break;
                    }
                    idx += 1;
                    tries += 1;
                }
                let m = wf[idx % wf.len()];
                match via % 5 {
                    3 => {
                        // coordinate text of a move that only the king's safety forbids, through the SAN entry point
                        let s = self.cur().pseudo_legal();
                        let ill: Vec<RefMove> = s.into_iter().filter(|x| !l.contains(x)).collect();
                        if let Some(x) = self.select(&ill, (*k & 0xff) as u8) {
                            let r = self.chain.push(San(x.uci()));
                            self.expect_refused(r, &format!("the coordinate text {:?} of a move that leaves the king attacked, pushed as SAN", x.uci()), &before, before_len)?;
                            stats.label("refused_king_left_attacked");
                        }
                    }
                    4 => {
                        // abbreviated capture text naming any file and the file of the en-passant mark (or any two files)
                        let cur = self.cur().clone();
                        let a = (*k % 8) as i8;
                        let b = match cur.ep {
                            Some(e) if *k & 0x100 == 0 => file_of(e),
                            _ => ((*k >> 9) % 8) as i8,
                        };
                        let matching = l.iter().filter(|x| x.man.1 == Pc::P && file_of(x.from) == a && file_of(x.to) == b && a != b).count();
                        if matching == 0 {
                            let text = format!("{}{}", (b'a' + a as u8) as char, (b'a' + b as u8) as char);
                            let r = self.chain.push(San(text.clone()));
                            self.expect_refused(r, &format!("the two-file text {:?} which no legal pawn capture matches", text), &before, before_len)?;
                            stats.label("refused_two_file_text");
                        }
                    }
                    0 => {
                        let r = self.chain.push(m);
                        self.expect_refused(r, &format!("the illegal move {}", mv_desc(&m)), &before, before_len)?;
                    }
                    1 => {
                        let text = m.to_string();
                        let has_legal_text = l.iter().any(|x| x.uci() == text);
                        if !has_legal_text {
                            let r = self.chain.push(Uci(text.clone()));
                            self.expect_refused(r, &format!("the illegal UCI text {:?}", text), &before, before_len)?;
                        }
                    }
                    _ => {
                        // semilegal but illegal moves through the pseudo-legal list, if any
                        let s = self.cur().pseudo_legal();
                        let ill: Vec<RefMove> = s.into_iter().filter(|x| !l.contains(x)).collect();
                        if let Some(x) = self.select(&ill, (*k & 0xff) as u8) {
                            let mv = f(mv_to_lib(&x))?;
                            let r = self.chain.push(mv);
                            self.expect_refused(r, &format!("the move {} that leaves the king attacked", x.uci()), &before, before_len)?;
                            stats.label("refused_king_left_attacked");
                        }
                    }
                }
                stats.label("refused_push");
            }
            Op::PushNull(via) => {
                let before = snapshot(self.chain.last());
                let before_len = self.chain.len();
                match via % 3 {
                    0 => {
                        let r = self.chain.push(Move::NULL);
                        self.expect_refused(r, "Move::NULL", &before, before_len)?;
                    }
                    1 => {
                        let r = self.chain.push(Uci("0000"));
                        self.expect_refused(r, "Uci(\"0000\")", &before, before_len)?;
                    }
                    _ => {
                        let r = self.chain.push(uci::Move::Null);
                        self.expect_refused(r, "uci::Move::Null", &before, before_len)?;
                    }
                }
                stats.label("refused_null");
            }
            Op::PushGarbage(text, via) => {
                let l = self.cur().legal();
                let before = snapshot(self.chain.last());
                let before_len = self.chain.len();
                let res: Result<(), String> =
                    if via % 2 == 0 { self.chain.push(Uci(text.as_str())).map_err(|e| e.to_string()) } else { self.chain.push(San(text.as_str())).map_err(|e| e.to_string()) };
                match res {
                    Err(_) => {
                        let now = snapshot(self.chain.last());
                        if now != before || self.chain.len() != before_len {
                            return Err(Failure::new(format!("refused push of text {:?} changed the chain: {}", text, snap_diff(&now, &before))));
                        }
                        self.refused += 1;
                        stats.label("refused_garbage");
                    }
                    Ok(()) => {
                        // the text happened to denote a move: it must be a legal one
                        let got = self.chain.get(self.chain.len() - 1);
                        let rm = mv_from_lib(&got).ok_or_else(|| Failure::new(format!("text {:?} pushed a null move", text)))?;
                        if !l.contains(&rm) {
                            return Err(Failure::new(format!("text {:?} pushed the illegal move {}", text, mv_desc(&got))));
                        }
                        let np = self.cur().apply(&rm);
                        self.positions.push(np);
                        self.moves.push(rm);
                        self.accepted += 1;
                        stats.label("garbage_was_a_move");
                    }
                }
            }
            Op::PushList(ks, bad) => {
                // build the token list against a scratch copy of the model
                let mut scratch = self.cur().clone();
                let mut toks: Vec<String> = Vec::new();
                let mut ms: Vec<RefMove> = Vec::new();
                for k in ks {
                    let l = scratch.legal();
                    if l.is_empty() {
                        break;
                    }
                    let m = l[(*k as usize * l.len()) >> 8];
                    toks.push(m.uci());
                    ms.push(m);
                    scratch = scratch.apply(&m);
                }
                let mut bad_is_bad = false;
                if let Some(b) = bad {
                    let b = b.split_ascii_whitespace().next().unwrap_or("").to_string();
                    if !b.is_empty() && !scratch.legal().iter().any(|m| m.uci() == b) {
                        toks.push(b);
                        bad_is_bad = true;
                    }
                }
                let sep = ["  ", " ", "\t", "\n "][ks.len() % 4];
                let text = format!(" {} ", toks.join(sep));
                let res = self.chain.push_uci_list(&text);
                for m in &ms {
                    let np = self.cur().apply(m);
                    self.positions.push(np);
                    self.moves.push(*m);
                    self.accepted += 1;
                }
                match res {
                    Ok(()) => {
                        if bad_is_bad {
                            return Err(Failure::new(format!("push_uci_list({:?}) accepted a bad token", text)));
                        }
                    }
                    Err(e) => {
                        if !bad_is_bad {
                            return Err(Failure::new(format!("push_uci_list({:?}) of legal moves failed: {}", text, e)));
                        }
                        if e.pos != ms.len() {
                            return Err(Failure::new(format!("push_uci_list error position {} but {} moves were applied", e.pos, ms.len())));
                        }
                        self.refused += 1;
                        stats.label("uci_list_bad_token");
                    }
                }
                stats.label("uci_list");
            }
            Op::Pop => {
                let had_outcome = self.outcome.is_some();
                let got = self.chain.pop();
                match self.moves.pop() {
                    Some(m) => {
                        self.positions.pop();
                        match got {
                            Some(g) if mv_from_lib(&g) == Some(m) => {}
                            other => return Err(Failure::new(format!("pop returned {:?} but the latest accepted move is {}", other.map(|x| mv_desc(&x)), m.uci()))),
                        }
                        self.outcome = None;
                        self.pops += 1;
                        if m.kind != Kind::Simple {
                            self.pops_after_special += 1;
                        }
                        stats.label_if(had_outcome, "pop_clears_outcome");
                    }
                    None => {
                        if got.is_some() {
                            return Err(Failure::new("pop on an empty chain returned a move".to_string()));
                        }
                        // "If the chain doesn't contain any moves, it remains unchanged"
                        stats.label("pop_on_empty");
                    }
                }
            }
            Op::SetOutcome(o) => {
                let o = all_outcomes()[*o as usize % 22];
                self.chain.set_outcome(o);
                self.outcome = Some(o);
                self.outcome_ops += 1;
            }
            Op::ResetOutcome(o) => {
                let o = o.map(|x| all_outcomes()[x as usize % 22]);
                self.chain.reset_outcome(o);
                self.outcome = o;
                self.outcome_ops += 1;
            }
            Op::ClearOutcome => {
                self.chain.clear_outcome();
                self.outcome = None;
                self.outcome_ops += 1;
            }
            Op::SetAuto(fi) => {
                let filter = FILTERS[*fi as usize % 3];
                let calc = self.chain.calc_outcome();
                let ret = self.chain.set_auto_outcome(filter);
                let want = match calc {
                    Some(o) if passes_table(&o, filter) => Some(o),
                    _ => None,
                };
                if ret != want || *self.chain.outcome() != want {
                    return Err(Failure::new(format!(
                        "set_auto_outcome({:?}) returned {:?} / stored {:?}; calc_outcome = {:?}, so expected {:?}",
                        filter, ret, self.chain.outcome(), calc, want
                    )));
                }
                self.outcome = want;
                self.outcome_ops += 1;
                stats.label_if(want.is_some(), "auto_outcome_stored");
                stats.label_if(calc.is_some() && want.is_none(), "auto_outcome_filtered");
            }
            Op::NullRoundTrip => {
                if self.outcome.is_none() && !self.cur().in_check(self.cur().side) {
                    let before = snapshot(self.chain.last());
                    let before_len = self.chain.len();
                    unsafe { self.chain.push_unchecked(Move::NULL) };
                    if self.chain.len() != before_len + 1 || self.chain.last().side() == before.raw.side {
                        return Err(Failure::new("push_unchecked(NULL) did not record a side-flipping move".to_string()));
                    }
                    let popped = self.chain.pop();
                    let now = snapshot(self.chain.last());
                    if popped != Some(Move::NULL) || now != before || self.chain.len() != before_len {
                        return Err(Failure::new(format!("null move pushed and popped does not restore the chain: {}", snap_diff(&now, &before))));
                    }
                    stats.label("null_round_trip");
                }
            }
            Op::Clone => {
                let c = self.chain.clone();
                if c != self.chain {
                    return Err(Failure::new("a clone compares unequal to its original".to_string()));
                }
                self.chain = c;
                stats.label("clone");
            }
        }
        self.verify_state()
    }
}

/// A reversible 4-ply cycle (a, x, a-back, x-back) of quiet non-pawn moves from `r`, if there is one.
pub fn find_cycle(r: &RefPos) -> Option<[RefMove; 4]> {
    let quiet = |p: &RefPos| -> Vec<RefMove> { p.legal().into_iter().filter(|m| m.kind == Kind::Simple && m.man.1 != Pc::P && m.man.1 != Pc::K && m.man.1 != Pc::R && !p.is_capture(m)).collect() };
    for a in quiet(r) {
        let p1 = r.apply(&a);
        for x in quiet(&p1) {
            let p2 = p1.apply(&x);
            let ab = RefMove { kind: Kind::Simple, man: a.man, from: a.to, to: a.from };
            if !p2.legal().contains(&ab) {
                continue;
            }
            let p3 = p2.apply(&ab);
            let xb = RefMove { kind: Kind::Simple, man: x.man, from: x.to, to: x.from };
            if !p3.legal().contains(&xb) {
                continue;
            }
            let p4 = p3.apply(&xb);
            if p4.rep_key() == r.rep_key() {
                return Some([a, x, ab, xb]);
            }
        }
    }
    None
}

/// Very long chains (more plies than fit in 16 bits): walker, pops and printing against a model built with the
/// reference apply(). `case` = {"fen", "plies"}.
pub fn long_chain_check(case: &Value, stats: &mut Stats) -> Result<(), Failure> {
    let (b, r) = match case_board(case, stats)? {
        Some(x) => x,
        None => return Ok(()),
    };
    let plies = case["plies"].as_u64().unwrap_or(65_600) as usize;
    let cycle = find_cycle(&r).ok_or_else(|| Failure::new("harness: no reversible cycle from the start position"))?;
    let mut chain = MoveChain::new(b.clone());
    let mut raws: Vec<owlchess::RawBoard> = Vec::with_capacity(plies + 1);
    let mut cur = r.clone();
    raws.push(raw_from_ref(&cur));
    let mut libs: Vec<Move> = Vec::with_capacity(plies);
    for i in 0..plies {
        let m = cycle[i % 4];
        let mv = mv_to_lib(&m).map_err(Failure::new)?;
        chain.push(mv).map_err(|e| Failure::new(format!("ply {}: legal move {} refused: {}", i, m.uci(), e)))?;
        cur = cur.apply(&m);
        raws.push(raw_from_ref(&cur));
        libs.push(mv);
        if *chain.last().raw() != raws[i + 1] {
            return Err(Failure::new(format!("ply {}: chain position {} differs from the model {}", i, chain.last().as_fen(), cur.fen())));
        }
    }
    if chain.len() != plies {
        return Err(Failure::new(format!("chain.len() = {} after {} accepted pushes", chain.len(), plies)));
    }
    check_consistent(chain.last(), "end of the long chain")?;
    let end_snap = snapshot(chain.last());
    {
        let mut w = chain.walk();
        let cmp = |pos: &Board, m: Move, i: usize| -> Result<(), Failure> {
            if *pos.raw() != raws[i] || m != libs[i] {
                return Err(Failure::new(format!(
                    "walker at index {} of {}: returned move {} / position {}, the game has {} / {}",
                    i, plies, mv_desc(&m), pos.raw().as_fen(), mv_desc(&libs[i]), raws[i].as_fen()
                )));
            }
            Ok(())
        };
        if w.len() != plies || w.pos() != 0 {
            return Err(Failure::new(format!("fresh walker: len {} pos {}", w.len(), w.pos())));
        }
        // a few steps from the start, then from the end backwards across the 16-bit boundary
        for i in 0..6.min(plies) {
            let (pos, m) = w.next().ok_or_else(|| Failure::new("next() returned None inside the chain"))?;
            cmp(pos, m, i)?;
        }
        w.end();
        if w.pos() != plies {
            return Err(Failure::new(format!("pos() after end() = {}, chain has {} moves", w.pos(), plies)));
        }
        if w.next().is_some() {
            return Err(Failure::new("next() after end() returned a move".to_string()));
        }
        let back = (plies.saturating_sub(65_520)).max(8).min(plies);
        for k in 0..back {
            let i = plies - 1 - k;
            let (pos, m) = w.prev().ok_or_else(|| Failure::new(format!("prev() returned None at index {}", i)))?;
            cmp(pos, m, i)?;
            if w.pos() != i {
                return Err(Failure::new(format!("pos() = {} after prev() to index {}", w.pos(), i)));
            }
        }
        // full forward pass
        w.start();
        let mut i = 0;
        while let Some((pos, m)) = w.next() {
            cmp(pos, m, i)?;
            i += 1;
            if w.pos() != i {
                return Err(Failure::new(format!("pos() = {} after {} next() calls", w.pos(), i)));
            }
        }
        if i != plies {
            return Err(Failure::new(format!("forward walk ended after {} of {} moves", i, plies)));
        }
    }
    if snapshot(chain.last()) != end_snap {
        return Err(Failure::new("walking changed the chain's position".to_string()));
    }
    // printing: first and last tokens of the UCI list, number of tokens
    let text = chain.uci().to_string();
    let toks: Vec<&str> = text.split(' ').collect();
    if toks.len() != plies || toks[0] != cycle[0].uci() || toks[plies - 1] != cycle[(plies - 1) % 4].uci() {
        return Err(Failure::new("uci() text of the long chain has the wrong tokens".to_string()));
    }
    // pop everything, comparing with the model on the way down
    for i in (0..plies).rev() {
        let m = chain.pop().ok_or_else(|| Failure::new(format!("pop returned None with {} moves left", i + 1)))?;
        if m != libs[i] || *chain.last().raw() != raws[i] {
            return Err(Failure::new(format!("pop #{}: returned {} / position {}, expected {} / {}", i, mv_desc(&m), chain.last().as_fen(), mv_desc(&libs[i]), raws[i].as_fen())));
        }
        if i % 4096 == 0 {
            check_consistent(chain.last(), "while popping the long chain")?;
        }
    }
    if snapshot(chain.last()) != snapshot(&b) {
        return Err(Failure::new("popping the whole long chain does not restore the start position".to_string()));
    }
    stats.label("long_chain");
    stats.add("plies", plies as u64);
    stats.nontrivial(&(case["fen"].to_string(), plies));
    Ok(())
}

pub const LONG_CHAIN_CASES: [&str; 3] = [
    r#"{"fen":"rnbqkbnr/pppppppp/8/8/8/8/PPPPPPPP/RNBQKBNR w KQkq - 0 1","plies":65600}"#,
    r#"{"fen":"4k1n1/8/8/8/8/8/8/1N2K3 b - - 0 1","plies":65541}"#,
    r#"{"fen":"4k1n1/8/8/8/8/8/8/1N2K3 w - - 7 65000","plies":70003}"#,
];

pub fn long_chain_driver(prop: &'static str) -> impl Fn(&crate::engine::RunCtx, &mut Stats, &mut crate::engine::Reporter) {
    move |_ctx, stats, rep| {
        // Each case runs on its own thread under a time limit: a library defect in this area tends to show up as an
        // endless loop, and a hang must become "inconclusive" quickly instead of stalling the whole run.
        let cases: Vec<Value> = LONG_CHAIN_CASES.iter().map(|t| serde_json::from_str(t).unwrap()).collect();
        let (tx, rx) = std::sync::mpsc::channel();
        for (i, c) in cases.iter().enumerate() {
            let tx = tx.clone();
            let c = c.clone();
            std::thread::Builder::new()
                .stack_size(64 << 20)
                .spawn(move || {
                    let mut st = Stats::default();
                    let r = crate::engine::guarded(prop, "long_chain", long_chain_check, &c, &mut st);
                    let _ = tx.send((i, st, r));
                })
                .unwrap();
        }
        let mut done = vec![false; cases.len()];
        let deadline = std::time::Instant::now() + std::time::Duration::from_secs(120);
        for _ in 0..cases.len() {
            let left = deadline.saturating_duration_since(std::time::Instant::now());
            match rx.recv_timeout(left) {
                Ok((i, st, r)) => {
                    done[i] = true;
                    stats.merge(st);
                    if let Err(f) = r {
                        rep(cases[i].clone(), f);
                    }
                }
                Err(_) => break,
            }
        }
        for (i, d) in done.iter().enumerate() {
            if !d {
                rep(cases[i].clone(), crate::engine::Failure::new("harness: long-chain case did not finish within 120 s (possible endless loop in the library; reported as inconclusive)"));
            }
        }
    }
}
