//! String generators (DESIGN §5.4)
