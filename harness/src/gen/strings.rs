//! String generators (DESIGN §5.4): arbitrary Unicode, alphabet-biased, mutated valid text,
//! grammar-built FEN and SAN.

use super::positions::gen_position;
use super::raw::gen_raw;
use super::Cursor;
use crate::refmodel::*;

pub const MULTIBYTE: [char; 10] = ['é', '€', '♘', '😀', 'ß', '\u{80}', '\u{7ff}', '\u{800}', '\u{ffff}', '\u{10000}'];
pub const MOVE_ALPHABET: &str = "abcdefgh12345678NBRQKPOo0-x:=+#nbrqkp ";
pub const FEN_ALPHABET: &str = "rnbqkpRNBQKP12345678/ wb-KQkqabcdefgh.0369+";

pub fn pick_char(cur: &mut Cursor, alphabet: &str) -> char {
    let sel = if alphabet.is_empty() { 200u8.saturating_add(cur.u8() % 56) } else { cur.u8() };
    if sel < 200 {
        let chars: Vec<char> = alphabet.chars().collect();
        chars[cur.below(chars.len())]
    } else if sel < 235 {
        MULTIBYTE[cur.below(MULTIBYTE.len())]
    } else if sel < 250 {
        (0x20 + cur.below(0x5f) as u8) as char
    } else {
        // any scalar value
        let v = ((cur.u8() as u32) << 16 | (cur.u8() as u32) << 8 | cur.u8() as u32) % 0x110000;
        char::from_u32(v).unwrap_or('\u{fffd}')
    }
}

pub fn alphabet_string(cur: &mut Cursor, alphabet: &str, max_len: usize) -> String {
    let n = cur.below(max_len + 1);
    (0..n).map(|_| pick_char(cur, alphabet)).collect()
}

/// One or two edits: insert, delete, replace, transpose, truncate (at a character boundary),
/// duplicate a piece of the text, flip the case of a letter.
pub fn mutate(cur: &mut Cursor, s: &str, alphabet: &str) -> String {
    let mut chars: Vec<char> = s.chars().collect();
    let edits = 1 + cur.below(2);
    for _ in 0..edits {
        let op = cur.below(8);
        let n = chars.len();
        match op {
            0 => {
                let i = cur.below(n + 1);
                let c = pick_char(cur, alphabet);
                chars.insert(i, c);
            }
            1 if n > 0 => {
                let i = cur.below(n);
                chars.remove(i);
            }
            2 if n > 0 => {
                let i = cur.below(n);
                chars[i] = pick_char(cur, alphabet);
            }
            3 if n > 1 => {
                let i = cur.below(n - 1);
                chars.swap(i, i + 1);
            }
            4 if n > 0 => {
                let i = cur.below(n);
                chars.truncate(i);
            }
            5 if n > 0 => {
                let i = cur.below(n);
                let c = chars[i];
                chars.insert(i, c);
            }
            7 if n > 0 => {
                // the other case of a letter (another colour's man, another spelling of a right, a piece letter for a file)
                let letters: Vec<usize> = (0..n).filter(|&i| chars[i].is_ascii_alphabetic()).collect();
                if !letters.is_empty() {
                    let i = letters[cur.below(letters.len())];
                    chars[i] = if chars[i].is_ascii_uppercase() { chars[i].to_ascii_lowercase() } else { chars[i].to_ascii_uppercase() };
                }
            }
            _ => {
                let c = pick_char(cur, alphabet);
                chars.push(c);
            }
        }
    }
    chars.into_iter().collect()
}

/// FEN-like text built from components; many variants are accepted by the library although they
/// are not canonical ('.' cells, signed or zero-padded counters, 4/5-field records, unordered rights).
pub fn grammar_fen(cur: &mut Cursor) -> String {
    let (p, _) = if cur.chance(100) { gen_raw(cur) } else { gen_position(cur) };
    let canon = p.fen();
    let parts: Vec<&str> = canon.split(' ').collect();
    let mut board = parts[0].to_string();
    match cur.below(6) {
        0 => {
            // expand digits into dots or ones
            let dots = cur.bool();
            let mut nb = String::new();
            for ch in board.chars() {
                if let Some(d) = ch.to_digit(10) {
                    for _ in 0..d {
                        nb.push(if dots { '.' } else { '1' });
                    }
                } else {
                    nb.push(ch);
                }
            }
            board = nb;
        }
        1 => {
            // split one run: "5" -> "23"
            if let Some(i) = board.find(|c: char| c.is_ascii_digit() && c > '1') {
                let d = board[i..i + 1].parse::<u32>().unwrap();
                let a = 1 + cur.below((d - 1) as usize) as u32;
                board.replace_range(i..i + 1, &format!("{}{}", a, d - a));
            }
        }
        _ => {}
    }
    let side = parts[1].to_string();
    let mut rights = parts[2].to_string();
    if cur.chance(60) && rights.len() > 1 {
        rights = rights.chars().rev().collect();
    }
    let ep = parts[3].to_string();
    let mut half = parts[4].to_string();
    let mut full = parts[5].to_string();
    match cur.below(8) {
        0 => half = format!("+{}", half),
        1 => full = format!("00{}", full),
        2 => half = "65536".to_string(),
        3 => full = "-1".to_string(),
        _ => {}
    }
    let sep = if cur.chance(20) { "  " } else { " " };
    match cur.below(8) {
        0 => format!("{} {} {} {}", board, side, rights, ep),
        1 => format!("{} {} {} {} {}", board, side, rights, ep, half),
        2 => format!("{} {} {} {} {} {} 7", board, side, rights, ep, half, full),
        3 => format!("{}{sep}{}{sep}{}{sep}{}{sep}{}{sep}{}", board, side, rights, ep, half, full, sep = sep),
        4 => format!("{} {} {} {} {} {} ", board, side, rights, ep, half, full),
        _ => format!("{} {} {} {} {} {}", board, side, rights, ep, half, full),
    }
}

/// Components of a SAN text whose intended meaning is known by construction.
#[derive(Clone, Debug, PartialEq, Eq)]
pub struct SanParts {
    pub piece: Option<Pc>, // None = pawn
    pub from_file: Option<i8>,
    pub from_rank: Option<i8>,
    pub capture: bool,
    pub to: Sq,
    pub promo: Option<Pc>,
    pub promo_eq: bool,
    pub suffix: &'static str,
    pub colon: bool,
}

impl SanParts {
    pub fn text(&self) -> String {
        let mut s = String::new();
        if let Some(p) = self.piece {
            s.push(p.letter());
        }
        if let Some(f) = self.from_file {
            s.push((b'a' + f as u8) as char);
        }
        if let Some(r) = self.from_rank {
            s.push((b'1' + r as u8) as char);
        }
        if self.capture {
            s.push(if self.colon { ':' } else { 'x' });
        }
        s.push_str(&sq_name(self.to));
        if let Some(p) = self.promo {
            if self.promo_eq {
                s.push('=');
            }
            s.push(p.letter());
        }
        s.push_str(self.suffix);
        s
    }
}

pub const SUFFIXES: [&str; 5] = ["", "+", "#", "++", ""];

/// Grammar SAN aimed at a position: mostly built around real men and destinations of the position.
pub fn grammar_san(cur: &mut Cursor, p: &RefPos) -> SanParts {
    let legal = p.legal();
    let base = if !legal.is_empty() && cur.chance(220) { Some(legal[cur.below(legal.len())]) } else { None };
    let (mut piece, mut to, mut from, mut promo, mut capture) = match base {
        Some(m) => (
            if m.man.1 == Pc::P { None } else { Some(m.man.1) },
            m.to,
            Some(m.from),
            if let Kind::Promo(pp) = m.kind { Some(pp) } else { None },
            p.is_capture(&m),
        ),
        None => (Some(cur.pick(&[Pc::N, Pc::B, Pc::R, Pc::Q, Pc::K])), cur.below(64) as Sq, None, None, cur.bool()),
    };
    // perturbations
    if cur.chance(40) {
        piece = cur.pick(&[None, Some(Pc::N), Some(Pc::B), Some(Pc::R), Some(Pc::Q), Some(Pc::K)]);
    }
    if cur.chance(30) {
        to = cur.below(64) as Sq;
    }
    if cur.chance(30) {
        from = Some(cur.below(64) as Sq);
    }
    if cur.chance(25) {
        promo = cur.pick(&[None, Some(Pc::N), Some(Pc::B), Some(Pc::R), Some(Pc::Q)]);
    }
    if cur.chance(40) {
        capture = !capture;
    }
    let hint = cur.below(4); // 0 none, 1 file, 2 rank, 3 both
    let (mut from_file, mut from_rank) = (None, None);
    if let Some(f) = from {
        if hint & 1 != 0 {
            from_file = Some(file_of(f));
        }
        if hint & 2 != 0 {
            from_rank = Some(rank_of(f));
        }
    }
    if piece.is_none() {
        // pawn texts: a file hint only with a capture mark; no rank hints in this grammar
        from_rank = None;
        if capture {
            from_file = Some(from.map(file_of).unwrap_or_else(|| cur.below(8) as i8));
        } else {
            from_file = None;
        }
    } else {
        promo = None;
    }
    SanParts {
        piece,
        from_file,
        from_rank,
        capture,
        to,
        promo,
        promo_eq: !cur.chance(60),
        suffix: SUFFIXES[cur.below(SUFFIXES.len())],
        colon: cur.chance(30),
    }
}
