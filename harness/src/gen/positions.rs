//! Valid-position sources (DESIGN §5.1). Every source builds a draft in the reference model's
//! representation; `repair` then makes it valid constructively and deterministically.

use super::{gen_counter, Cursor};
use crate::refmodel::*;

pub const CORPUS: &[&str] = &[
    "rnbqkbnr/pppppppp/8/8/8/8/PPPPPPPP/RNBQKBNR w KQkq - 0 1",
    "r3k2r/p1ppqpb1/bn2pnp1/3PN3/1p2P3/2N2Q1p/PPPBBPPP/R3K2R w KQkq - 0 1",
    "8/2p5/3p4/KP5r/1R3p1k/8/4P1P1/8 w - - 0 1",
    "r3k2r/Pppp1ppp/1b3nbN/nP6/BBP1P3/q4N2/Pp1P2PP/R2Q1RK1 w kq - 0 1",
    "rnbq1k1r/pp1Pbppp/2p5/8/2B5/8/PPP1NnPP/RNBQK2R w KQ - 1 8",
    "r4rk1/1pp1qppp/p1np1n2/2b1p1B1/2B1P1b1/P1NP1N2/1PP1QPPP/R4RK1 w - - 0 10",
    "1rq1r1k1/1p3ppp/pB3n2/3ppP2/Pbb1P3/1PN2B2/2P2QPP/R1R4K w - - 1 21",
    "3K4/3p4/8/3PpP2/6P1/5p2/8/2k5 b - g3 0 1",
    "3K4/3p4/8/3PpP2/8/5p2/6P1/2k5 w - e6 0 1",
    "3Q4/1Q4Q1/4Q3/2Q4R/Q4Q2/3Q4/NR4Q1/kN1BB1K1 w - - 0 1",
    "3R3B/B7/1B1R4/1N2Q3/RQ1p4/1N6/5B2/3R1K1k w - - 0 1",
    "4r1k1/3R1ppp/8/5P2/p7/6PP/4pK2/1rN1B3 w - - 4 43",
    "5K2/1N1N1N2/8/1N1N1N2/1n1n1n2/8/1n1n1n2/5k2 w - - 0 1",
    "7n/6P1/8/2PpP2r/2P1P1P1/7q/6P1/3k1K2 w - d6 0 1",
    "8/PPPPPPPP/8/2k1K3/8/8/pppppppp/8 w - - 0 1",
    "2n2n1n/3P2P1/8/8/8/8/3K1k2/8 w - - 0 1",
    "r1b1k2r/2qnbppp/p2ppn2/1p4B1/3NPPP1/2N2Q2/PPP4P/2KR1B1R w kq - 0 11",
    "r1bq1b1r/ppppkppp/2n2n2/4p3/2B1P3/5N2/PPPP1PPP/RNBQK1R1 w Q - 6 5",
    "r1bqk2r/ppp2ppp/2np1n2/1Bb1p3/1P2P3/2PP1N2/P4PPP/RNBQK2R b KQkq b3 0 6",
    "rn1q1bnr/ppp1kB1p/3p2p1/3NN3/4P3/8/PPPP1PPP/R1BbK2R b KQ - 2 7",
    "rnbqk2r/ppp1bppp/3p1n2/4p3/2BPP3/5N2/PPP2PPP/RNBQ1RK1 b kq d3 0 5",
    "k5K1/8/p4q2/1P4n1/8/2P5/5q2/8 b - - 0 1",
    "6kb/R7/8/4P3/8/1p6/1K6/2r4r w - - 0 1",
    "4k3/8/8/pppppppp/PPPPPPPP/8/8/4K3 w - - 0 1",
    "r3k2r/8/8/8/8/8/8/R3K2R w KQkq - 0 1",
    "r3k2r/8/8/8/8/8/8/R3K2R b KQkq - 0 1",
    "8/8/8/K2Pp2r/8/8/8/7k w - e6 0 1",
    "8/8/8/8/k2pP2R/8/8/7K b - e3 0 1",
    "R6R/3Q4/1Q4Q1/4Q3/2Q4Q/Q4Q2/pp1Q4/kBNN1KB1 w - - 0 1",
    "NNK4k/8/8/8/8/8/8/8 w - - 99 80",
    "2K4k/8/8/8/B1B5/1B1B4/B1B5/1B1B4 w - - 0 1",
];

pub const SOURCES: [&str; 20] = [
    "sparse",
    "dense",
    "playout",
    "ep_family",
    "castle_family",
    "promo_family",
    "pin_check_family",
    "material_family",
    "mate_family",
    "many_queens",
    "corpus_mut",
    "ep_family2",
    "ep_only_reply",
    "max_mobility",
    "shuffled_camps",
    "few_moves",
    "no_moves_search",
    "crowded_area",
    "longest_fen",
    "pawn_stacks",
];

/// Positions with (near-)maximal numbers of semilegal moves found by earlier maximisation runs.
pub const MAX_SEEDS: &[&str] = &[
    "R6R/3Q4/1Q4Q1/4Q3/2Q4Q/Q4Q2/pp1Q4/kBNN1KB1 w - - 0 1",
    "3Q4/1Q4Q1/4Q3/2Q4R/Q4Q2/3Q4/NR4Q1/kN1BB1K1 w - - 0 1",
    "1Q3Q2/4Q3/2Q4Q/Q4Q2/3Q4/1Q4Q1/5Q2/k2Q2K1 w - - 0 1",
    "Q1Q5/3Q2Q1/1Q6/4Q2Q/2Q5/Q4Q2/3Q2pp/1K2Q1k1 w - - 0 1",
    "1Q4Qq/4Q3/Q1Q4Q/Q4Q2/q2Q4/KQ4Q1/bp2Q3/kBQ4Q w - - 0 1",
    "Kbq4q/1R2q3/kq4q1/3q4/q4q2/q1q4q/4q3/1q4q1 b - - 0 1",
    "2QQ3Q/Q4Q2/3Q4/1Q4Q1/4Q3/2Q4Q/Q4Qqr/q1QQnKnk w - - 0 1",
];

fn free_sq(cur: &mut Cursor, p: &RefPos, ok: impl Fn(Sq) -> bool) -> Option<Sq> {
    let v: Vec<Sq> = (0..64u8).filter(|&s| p.b[s as usize].is_none() && ok(s)).collect();
    if v.is_empty() {
        None
    } else {
        Some(v[cur.below(v.len())])
    }
}

fn pawn_ok(s: Sq) -> bool {
    (1..=6).contains(&rank_of(s))
}

fn put_random(cur: &mut Cursor, p: &mut RefPos, m: Man) -> Option<Sq> {
    let s = if m.1 == Pc::P { free_sq(cur, p, pawn_ok) } else { free_sq(cur, p, |_| true) }?;
    p.b[s as usize] = Some(m);
    Some(s)
}

fn adjacent(a: Sq, b: Sq) -> bool {
    (file_of(a) - file_of(b)).abs() <= 1 && (rank_of(a) - rank_of(b)).abs() <= 1
}

fn place_kings(cur: &mut Cursor, p: &mut RefPos) {
    let wk = cur.below(64) as Sq;
    p.b[wk as usize] = Some((Col::W, Pc::K));
    let bk = free_sq(cur, p, |s| !adjacent(s, wk)).unwrap();
    p.b[bk as usize] = Some((Col::B, Pc::K));
}

const WEIGHTED: [Pc; 10] = [Pc::P, Pc::P, Pc::P, Pc::N, Pc::N, Pc::B, Pc::B, Pc::R, Pc::R, Pc::Q];
const HEAVY: [Pc; 8] = [Pc::Q, Pc::Q, Pc::Q, Pc::R, Pc::R, Pc::B, Pc::N, Pc::P];

fn src_sparse(cur: &mut Cursor, p: &mut RefPos) {
    place_kings(cur, p);
    let n = cur.below(7);
    for _ in 0..n {
        let c = if cur.bool() { Col::B } else { Col::W };
        let pc = cur.pick(&WEIGHTED);
        put_random(cur, p, (c, pc));
    }
}

fn src_dense(cur: &mut Cursor, p: &mut RefPos) {
    place_kings(cur, p);
    let n = 7 + cur.below(24);
    let heavy = cur.bool();
    for _ in 0..n {
        let c = if cur.bool() { Col::B } else { Col::W };
        if p.count(c) >= 16 {
            continue;
        }
        let pc = if heavy { cur.pick(&HEAVY) } else { cur.pick(&WEIGHTED) };
        put_random(cur, p, (c, pc));
    }
}

fn is_special(p: &RefPos, m: &RefMove) -> bool {
    m.kind != Kind::Simple || p.is_capture(m) || m.man.1 == Pc::K || m.man.1 == Pc::R
}

fn src_playout(cur: &mut Cursor, p: &mut RefPos) {
    let start = cur.below(CORPUS.len() + 6);
    *p = if start >= CORPUS.len() { RefPos::initial() } else { ref_from_fen(CORPUS[start]).unwrap() };
    let n = cur.below(70);
    for _ in 0..n {
        let l = p.legal();
        if l.is_empty() {
            break;
        }
        let b = cur.u8();
        let m = if b & 1 == 1 {
            let sp: Vec<&RefMove> = l.iter().filter(|m| is_special(p, m)).collect();
            if sp.is_empty() {
                l[((b >> 1) as usize * l.len()) >> 7]
            } else {
                *sp[((b >> 1) as usize * sp.len()) >> 7]
            }
        } else {
            l[((b >> 1) as usize * l.len()) >> 7]
        };
        *p = p.apply(&m);
    }
}

/// En-passant family: pawn on its 5th rank, enemy pawn beside it with the mark set, own king and
/// an enemy line piece on the shared rank / a diagonal / file through either pawn.
fn src_ep_family(cur: &mut Cursor, p: &mut RefPos, variant2: bool) {
    let us = Col::W; // colour handled by the mirror step
    let them = us.inv();
    let r5 = 4i8;
    let f = cur.below(8) as i8;
    let victim = mk_sq(f, r5).unwrap();
    p.b[victim as usize] = Some((them, Pc::P));
    p.ep = Some(victim);
    p.side = us;
    let side_df: i8 = if f == 0 {
        1
    } else if f == 7 {
        -1
    } else if cur.bool() {
        1
    } else {
        -1
    };
    let capt = mk_sq(f + side_df, r5).unwrap();
    p.b[capt as usize] = Some((us, Pc::P));
    if cur.chance(64) {
        if let Some(s2) = mk_sq(f - side_df, r5) {
            p.b[s2 as usize] = Some((us, Pc::P));
        }
    }
    // edge files: an own pawn on the square that index arithmetic without a file guard would reach
    // (mark on a5 -> h6, mark on h5 -> a4)
    if f == 0 && cur.bool() {
        p.b[mk_sq(7, r5 + 1).unwrap() as usize] = Some((us, Pc::P));
    }
    if f == 7 && cur.bool() {
        p.b[mk_sq(0, r5 - 1).unwrap() as usize] = Some((us, Pc::P));
    }
    // own king geometry
    let mode = cur.below(if variant2 { 8 } else { 6 });
    let place_line = |cur: &mut Cursor, p: &mut RefPos, through: Sq, df: i8, dr: i8, slider: Pc| {
        // king on one side of `through` along (df,dr), enemy slider on the other side
        let mut ks: Vec<Sq> = Vec::new();
        let (mut cf, mut cr) = (file_of(through) + df, rank_of(through) + dr);
        while let Some(s) = mk_sq(cf, cr) {
            if p.b[s as usize].is_none() {
                ks.push(s);
            }
            cf += df;
            cr += dr;
        }
        let mut ss: Vec<Sq> = Vec::new();
        let (mut cf, mut cr) = (file_of(through) - df, rank_of(through) - dr);
        while let Some(s) = mk_sq(cf, cr) {
            if p.b[s as usize].is_none() {
                ss.push(s);
            }
            cf -= df;
            cr -= dr;
        }
        if ks.is_empty() || ss.is_empty() {
            return false;
        }
        let k = ks[cur.below(ks.len())];
        let s = ss[cur.below(ss.len())];
        p.b[k as usize] = Some((us, Pc::K));
        p.b[s as usize] = Some((them, slider));
        true
    };
    let placed = match mode {
        // shared rank: king and rook/queen on the 5th rank with both pawns between
        0 | 1 => {
            let dir = if cur.bool() { 1 } else { -1 };
            let sl = if cur.bool() { Pc::R } else { Pc::Q };
            place_line(cur, p, victim, dir, 0, sl) || place_line(cur, p, victim, -dir, 0, sl)
        }
        // diagonal through the captured pawn (removing it opens the diagonal)
        2 => {
            let d = cur.pick(&[(1i8, 1i8), (1, -1), (-1, 1), (-1, -1)]);
            let sl = if cur.bool() { Pc::B } else { Pc::Q };
            place_line(cur, p, victim, d.0, d.1, sl)
        }
        // line through the capturing pawn (plain pin of the capturer)
        3 => {
            let d = cur.pick(&[(1i8, 1i8), (1, -1), (-1, 1), (-1, -1), (0, 1), (0, -1)]);
            let sl = if d.0 == 0 || d.1 == 0 {
                Pc::R
            } else if cur.bool() {
                Pc::B
            } else {
                Pc::Q
            };
            place_line(cur, p, capt, d.0, d.1, sl)
        }
        // the double-stepped pawn gives check: king diagonally in front of it
        4 => {
            let k = mk_sq(f + if cur.bool() { 1 } else { -1 }, r5 - 1);
            match k {
                Some(k) if p.b[k as usize].is_none() => {
                    p.b[k as usize] = Some((us, Pc::K));
                    true
                }
                _ => false,
            }
        }
        // file through the destination square (capture blocks a check / pinned along file)
        6 => {
            let sl = if cur.bool() { Pc::R } else { Pc::Q };
            let dst = mk_sq(f, r5 + 1).unwrap();
            let dr = if cur.bool() { 1 } else { -1 };
            place_line(cur, p, dst, 0, dr, sl)
        }
        // diagonal through the destination square (ep as interposition)
        7 => {
            let d = cur.pick(&[(1i8, 1i8), (1, -1), (-1, 1), (-1, -1)]);
            let sl = if cur.bool() { Pc::B } else { Pc::Q };
            let dst = mk_sq(f, r5 + 1).unwrap();
            place_line(cur, p, dst, d.0, d.1, sl)
        }
        _ => false,
    };
    if !placed && p.king_sq(us).is_none() {
        put_random(cur, p, (us, Pc::K));
    }
    // enemy king: sometimes at home with rooks and castling rights (rights and en-passant shapes combined)
    let wk = p.king_sq(us).unwrap();
    let home = mk_sq(4, 7).unwrap();
    if cur.chance(80) && p.b[home as usize].is_none() && !adjacent(home, wk) {
        p.b[home as usize] = Some((them, Pc::K));
        for (f, i) in [(7i8, BK), (0i8, BQ)] {
            let r = mk_sq(f, 7).unwrap();
            if p.b[r as usize].is_none() && cur.bool() {
                p.b[r as usize] = Some((them, Pc::R));
                p.castle[i] = true;
            }
        }
    } else if let Some(bk) = free_sq(cur, p, |s| !adjacent(s, wk)) {
        p.b[bk as usize] = Some((them, Pc::K));
    }
    // own rooks at home with rights when our king happens to stand on e1
    if wk == mk_sq(4, 0).unwrap() {
        for (f, i) in [(7i8, WK), (0i8, WQ)] {
            let r = mk_sq(f, 0).unwrap();
            if p.b[r as usize].is_none() && cur.bool() {
                p.b[r as usize] = Some((us, Pc::R));
                p.castle[i] = true;
            }
        }
    }
    // extras
    let n = cur.below(5);
    for _ in 0..n {
        let c = if cur.bool() { Col::B } else { Col::W };
        let pc = cur.pick(&WEIGHTED);
        // keep the square behind the victim empty so that the mark survives
        let behind = mk_sq(f, r5 + 1).unwrap();
        let s = if pc == Pc::P {
            free_sq(cur, p, |s| pawn_ok(s) && s != behind)
        } else {
            free_sq(cur, p, |s| s != behind)
        };
        if let Some(s) = s {
            p.b[s as usize] = Some((c, pc));
        }
    }
}

fn src_castle_family(cur: &mut Cursor, p: &mut RefPos) {
    // kings
    let both_home = cur.chance(160);
    p.b[4] = Some((Col::W, Pc::K));
    if both_home {
        p.b[60] = Some((Col::B, Pc::K));
    } else {
        // anywhere not adjacent to e1, with a bias to the squares that touch the castling path (b2, c2, g2, h2)
        let near = [9u8, 10, 14, 15];
        let s = if cur.chance(70) { Some(near[cur.below(4)]) } else { free_sq(cur, p, |s| !adjacent(s, 4)) };
        if let Some(s) = s {
            p.b[s as usize] = Some((Col::B, Pc::K));
        }
    }
    for (c, hr) in [(Col::W, 0i8), (Col::B, 7i8)] {
        if p.b[mk_sq(4, hr).unwrap() as usize] != Some((c, Pc::K)) {
            continue;
        }
        let sel = cur.u8();
        if sel & 1 == 1 || sel == 0 {
            p.b[mk_sq(7, hr).unwrap() as usize] = Some((c, Pc::R));
        }
        if sel & 2 == 2 || sel == 0 {
            p.b[mk_sq(0, hr).unwrap() as usize] = Some((c, Pc::R));
        }
    }
    // rights: random subset (repair intersects with what is possible)
    let r = cur.u8();
    p.castle = if r == 0 { [true; 4] } else { [r & 1 != 0, r & 2 != 0, r & 4 != 0, r & 8 != 0] };
    // blockers on the back ranks
    for hr in [0i8, 7] {
        for f in [1i8, 2, 3, 5, 6] {
            if cur.chance(40) {
                let c = if cur.bool() { Col::B } else { Col::W };
                let pc = cur.pick(&[Pc::N, Pc::B, Pc::Q, Pc::R]);
                let s = mk_sq(f, hr).unwrap();
                if p.b[s as usize].is_none() {
                    p.b[s as usize] = Some((c, pc));
                }
            }
        }
    }
    // attackers aimed at back-rank squares: sliders on files b..g, knights and pawns nearby
    let n = cur.below(5);
    for _ in 0..n {
        let c = if cur.bool() { Col::B } else { Col::W };
        let pc = cur.pick(&[Pc::R, Pc::B, Pc::Q, Pc::N, Pc::P, Pc::R, Pc::Q, Pc::B]);
        let near = cur.bool();
        let s = match pc {
            Pc::P | Pc::N if near => {
                let tr = if c == Col::B { 1 + cur.below(2) as i8 } else { 6 - cur.below(2) as i8 };
                free_sq(cur, p, |s| rank_of(s) == tr)
            }
            Pc::P => free_sq(cur, p, pawn_ok),
            _ => free_sq(cur, p, |s| (1..=6).contains(&rank_of(s))),
        };
        if let Some(s) = s {
            p.b[s as usize] = Some((c, pc));
        }
    }
}

fn src_promo_family(cur: &mut Cursor, p: &mut RefPos) {
    let us = Col::W;
    let them = Col::B;
    // enemy king: often at home with rooks on corners carrying rights
    if cur.chance(128) {
        p.b[60] = Some((them, Pc::K));
        if cur.bool() {
            p.b[63] = Some((them, Pc::R));
        }
        if cur.bool() {
            p.b[56] = Some((them, Pc::R));
        }
        p.castle = [false, false, true, true];
    } else {
        let s = cur.below(64) as Sq;
        p.b[s as usize] = Some((them, Pc::K));
    }
    let bk = p.king_sq(them).unwrap();
    if let Some(s) = free_sq(cur, p, |s| !adjacent(s, bk)) {
        p.b[s as usize] = Some((us, Pc::K));
    }
    let n = 1 + cur.below(3);
    for _ in 0..n {
        if let Some(s) = free_sq(cur, p, |s| rank_of(s) == 6) {
            p.b[s as usize] = Some((us, Pc::P));
        }
    }
    // targets / blockers on the last rank
    let n = cur.below(5);
    for _ in 0..n {
        let pc = cur.pick(&[Pc::R, Pc::N, Pc::B, Pc::Q]);
        let c = if cur.chance(200) { them } else { us };
        if let Some(s) = free_sq(cur, p, |s| rank_of(s) == 7) {
            p.b[s as usize] = Some((c, pc));
        }
    }
    // a few black pawns on the 2nd rank so that the mirrored side can promote as well
    let n = cur.below(3);
    for _ in 0..n {
        if let Some(s) = free_sq(cur, p, |s| rank_of(s) == 1) {
            p.b[s as usize] = Some((them, Pc::P));
        }
    }
    let n = cur.below(4);
    for _ in 0..n {
        let c = if cur.bool() { Col::B } else { Col::W };
        let pc = cur.pick(&WEIGHTED);
        put_random(cur, p, (c, pc));
    }
    p.side = if cur.chance(200) { us } else { them };
}

fn src_pin_check_family(cur: &mut Cursor, p: &mut RefPos) {
    let us = Col::W;
    let them = Col::B;
    let k = cur.below(64) as Sq;
    p.b[k as usize] = Some((us, Pc::K));
    // one to three lines, or (one case in five) up to all eight directions at once
    const DIRS: [(i8, i8); 8] = [(1, 0), (-1, 0), (0, 1), (0, -1), (1, 1), (1, -1), (-1, 1), (-1, -1)];
    let many = cur.chance(50);
    let lines = if many { 8 } else { 1 + cur.below(3) };
    for li in 0..lines {
        let d = if many { DIRS[li] } else { cur.pick(&DIRS) };
        if many && !cur.chance(215) {
            continue;
        }
        let mut ray: Vec<Sq> = Vec::new();
        let (mut cf, mut cr) = (file_of(k) + d.0, rank_of(k) + d.1);
        while let Some(s) = mk_sq(cf, cr) {
            ray.push(s);
            cf += d.0;
            cr += d.1;
        }
        if ray.len() < 2 {
            continue;
        }
        let i = cur.below(ray.len() - 1);
        let j = i + 1 + cur.below(ray.len() - 1 - i);
        let diag = d.0 != 0 && d.1 != 0;
        let slider = if cur.bool() {
            Pc::Q
        } else if diag {
            Pc::B
        } else {
            Pc::R
        };
        let blocker_c = if cur.chance(200) { us } else { them };
        let mut blocker = cur.pick(&[Pc::N, Pc::B, Pc::R, Pc::Q, Pc::P, Pc::P]);
        if blocker == Pc::P && !pawn_ok(ray[i]) {
            blocker = Pc::N;
        }
        if p.b[ray[i] as usize].is_none() && p.b[ray[j] as usize].is_none() {
            if !cur.chance(40) {
                p.b[ray[i] as usize] = Some((blocker_c, blocker));
            }
            p.b[ray[j] as usize] = Some((them, slider));
        }
    }
    // checkers: none to two, or (one case in twelve) as many as fit - line pieces on every free ray, knights on the knight squares
    let n = if cur.chance(21) { 16 } else { cur.below(3) };
    for _ in 0..n {
        if p.count(them) >= 15 {
            break;
        }
        let pc = cur.pick(&[Pc::N, Pc::P, Pc::R, Pc::B, Pc::Q]);
        let cands: Vec<Sq> = (0..64u8)
            .filter(|&s| {
                if p.b[s as usize].is_some() || (pc == Pc::P && !pawn_ok(s)) {
                    return false;
                }
                let mut q = p.clone();
                q.b[s as usize] = Some((them, pc));
                q.reaches(s, k)
            })
            .collect();
        if !cands.is_empty() {
            let s = cands[cur.below(cands.len())];
            p.b[s as usize] = Some((them, pc));
        }
    }
    if let Some(bk) = free_sq(cur, p, |s| !adjacent(s, k)) {
        p.b[bk as usize] = Some((them, Pc::K));
    }
    let n = cur.below(5);
    for _ in 0..n {
        let c = if cur.bool() { Col::B } else { Col::W };
        let pc = cur.pick(&WEIGHTED);
        put_random(cur, p, (c, pc));
    }
    p.side = us;
}

fn src_material_family(cur: &mut Cursor, p: &mut RefPos) {
    place_kings(cur, p);
    let mode = cur.below(7);
    match mode {
        0 => {}
        6 => {
            // kings and many minor pieces only (up to 15 a side), all of one kind or mixed, mostly on squares of one colour:
            // material rules and whatever counts or indexes by the number of knights / bishops at their far end
            let kind = cur.below(3);
            let n = 6 + cur.below(25);
            let light = cur.bool();
            let one_colour = !cur.chance(70);
            let mut counts = [1usize; 2];
            for _ in 0..n {
                let mut c = if cur.bool() { Col::B } else { Col::W };
                if counts[c as usize] >= 16 {
                    c = c.inv();
                }
                if counts[c as usize] >= 16 {
                    break;
                }
                let pc = match kind {
                    0 => Pc::N,
                    1 => Pc::B,
                    _ => cur.pick(&[Pc::N, Pc::B]),
                };
                if let Some(s) = free_sq(cur, p, |s| !one_colour || is_light(s) == light) {
                    p.b[s as usize] = Some((c, pc));
                    counts[c as usize] += 1;
                }
            }
        }
        1 => {
            let c = if cur.bool() { Col::B } else { Col::W };
            let pc = cur.pick(&[Pc::N, Pc::B, Pc::R, Pc::Q, Pc::P]);
            put_random(cur, p, (c, pc));
        }
        2 => {
            // bishops, mostly on one square colour
            let n = 1 + cur.below(5);
            let light = cur.bool();
            for _ in 0..n {
                let c = if cur.bool() { Col::B } else { Col::W };
                let same = !cur.chance(40);
                if let Some(s) = free_sq(cur, p, |s| is_light(s) == (light == same)) {
                    p.b[s as usize] = Some((c, Pc::B));
                }
            }
        }
        3 => {
            let n = 1 + cur.below(3);
            for _ in 0..n {
                let c = if cur.bool() { Col::B } else { Col::W };
                put_random(cur, p, (c, Pc::N));
            }
        }
        _ => {
            let n = 1 + cur.below(4);
            for _ in 0..n {
                let c = if cur.bool() { Col::B } else { Col::W };
                let pc = cur.pick(&[Pc::N, Pc::B, Pc::B, Pc::N, Pc::P, Pc::R]);
                put_random(cur, p, (c, pc));
            }
        }
    }
}

fn src_mate_family(cur: &mut Cursor, p: &mut RefPos) {
    let us = Col::W; // the side to move, possibly mated
    let them = Col::B;
    // king on edge/corner
    let edge: Vec<Sq> =
        (0..64u8).filter(|&s| file_of(s) == 0 || file_of(s) == 7 || rank_of(s) == 0 || rank_of(s) == 7).collect();
    let k = if cur.chance(200) { edge[cur.below(edge.len())] } else { cur.below(64) as Sq };
    p.b[k as usize] = Some((us, Pc::K));
    // own blockers around
    for d in [(1i8, 0i8), (1, 1), (0, 1), (-1, 1), (-1, 0), (-1, -1), (0, -1), (1, -1)] {
        if let Some(s) = mk_sq(file_of(k) + d.0, rank_of(k) + d.1) {
            if cur.chance(90) {
                let mut pc = cur.pick(&[Pc::P, Pc::P, Pc::N, Pc::B, Pc::R]);
                if pc == Pc::P && !pawn_ok(s) {
                    pc = Pc::N;
                }
                p.b[s as usize] = Some((us, pc));
            }
        }
    }
    if let Some(bk) = free_sq(cur, p, |s| !adjacent(s, k)) {
        p.b[bk as usize] = Some((them, Pc::K));
    }
    // attackers near the king; one case in five a lone minor piece (smothered / corner mates by king + knight or bishop)
    let lone_minor = cur.chance(50);
    let n = if lone_minor { 1 } else { 1 + cur.below(4) };
    for _ in 0..n {
        let pc = if lone_minor { cur.pick(&[Pc::N, Pc::N, Pc::B]) } else { cur.pick(&[Pc::Q, Pc::R, Pc::R, Pc::B, Pc::N, Pc::Q]) };
        // a lone minor is put where it gives check, if there is such a square
        let checking: Vec<Sq> = if lone_minor {
            (0..64u8)
                .filter(|&s| {
                    p.b[s as usize].is_none() && {
                        let mut q = p.clone();
                        q.b[s as usize] = Some((them, pc));
                        q.reaches(s, k)
                    }
                })
                .collect()
        } else {
            Vec::new()
        };
        let s = if !checking.is_empty() {
            Some(checking[cur.below(checking.len())])
        } else {
            free_sq(cur, p, |s| (file_of(s) - file_of(k)).abs() <= 3 && (rank_of(s) - rank_of(k)).abs() <= 3)
        };
        if let Some(s) = s {
            p.b[s as usize] = Some((them, pc));
        }
    }
    let n = cur.below(3);
    for _ in 0..n {
        let c = if lone_minor || cur.bool() { Col::W } else { Col::B };
        let pc = cur.pick(&WEIGHTED);
        put_random(cur, p, (c, pc));
    }
    p.side = us;
    // Two cases in five: step back to the position before the (possibly mating) check was given - one checking piece is
    // taken back to a square it could have come from, and the other side is to move. The check or mate is then one move away,
    // which is what check and mate marks of move texts and early-exit "has a reply" searches look at.
    if cur.chance(100) {
        let checkers: Vec<Sq> = p.attackers(k, them).into_iter().filter(|&c| !matches!(p.b[c as usize], Some((_, Pc::P | Pc::K)))).collect();
        if !checkers.is_empty() {
            let c = checkers[cur.below(checkers.len())];
            let man = p.b[c as usize].unwrap();
            let origins: Vec<Sq> = (0..64u8)
                .filter(|&o| {
                    p.b[o as usize].is_none() && {
                        let mut q = p.clone();
                        q.b[c as usize] = None;
                        q.b[o as usize] = Some(man);
                        q.reaches(o, c) && !q.reaches(o, k)
                    }
                })
                .collect();
            if !origins.is_empty() {
                let o = origins[cur.below(origins.len())];
                p.b[c as usize] = None;
                p.b[o as usize] = Some(man);
                p.side = them;
            }
        }
    }
}

fn src_many_queens(cur: &mut Cursor, p: &mut RefPos) {
    place_kings(cur, p);
    // one favoured kind (mostly queens) so that ten and more men of a kind occur; sometimes pawns about to promote
    let fav = cur.pick(&[Pc::Q, Pc::Q, Pc::Q, Pc::Q, Pc::N, Pc::B, Pc::R]);
    let pawns = if cur.chance(80) { 1 + cur.below(2) } else { 0 };
    let n = (6 + cur.below(10)).min(15 - pawns);
    for _ in 0..n {
        let pc = cur.pick(&[fav, fav, fav, fav, fav, Pc::R, Pc::B, Pc::N]);
        put_random(cur, p, (Col::W, pc));
    }
    for _ in 0..pawns {
        if let Some(s) = free_sq(cur, p, |s| rank_of(s) == 6) {
            p.b[s as usize] = Some((Col::W, Pc::P));
        }
    }
    let n = cur.below(4);
    for _ in 0..n {
        let pc = cur.pick(&WEIGHTED);
        put_random(cur, p, (Col::B, pc));
    }
    p.side = Col::W;
}

/// A 5x5 area (clipped at the edges) around some square filled almost or entirely with men of both colours, a few men elsewhere:
/// squares whose whole neighbourhood is occupied, sliders standing shoulder to shoulder, blocked knights and pawns.
fn src_crowded_area(cur: &mut Cursor, p: &mut RefPos) {
    place_kings(cur, p);
    let c = cur.below(64) as Sq;
    let (cf, cr) = (file_of(c), rank_of(c));
    let fill = 200 + cur.below(57) as u16;
    let centre_filled = cur.bool();
    let mut counts = [1usize; 2];
    for s in 0..64u8 {
        let d = (file_of(s) - cf).abs().max((rank_of(s) - cr).abs());
        if d > 2 || p.b[s as usize].is_some() || (s == c && !centre_filled) || (s != c && !cur.chance(fill)) {
            continue;
        }
        let mut col = if cur.bool() { Col::W } else { Col::B };
        if counts[col as usize] >= 16 {
            col = col.inv();
        }
        if counts[col as usize] >= 16 {
            continue;
        }
        let pc = if pawn_ok(s) { cur.pick(&[Pc::P, Pc::P, Pc::N, Pc::B, Pc::R, Pc::Q, Pc::N, Pc::B, Pc::R, Pc::Q]) } else { cur.pick(&[Pc::N, Pc::B, Pc::R, Pc::Q]) };
        p.b[s as usize] = Some((col, pc));
        counts[col as usize] += 1;
    }
    let n = cur.below(5);
    for _ in 0..n {
        let col = if cur.bool() { Col::W } else { Col::B };
        if counts[col as usize] < 16 {
            let pc = cur.pick(&WEIGHTED);
            if put_random(cur, p, (col, pc)).is_some() {
                counts[col as usize] += 1;
            }
        }
    }
}

/// Positions whose FEN text is as long as it gets: 4 or 5 men on every rank with no two empty squares side by side
/// (8 characters per rank, 71 for the placement field), up to 32 men, castling rights where the pattern allows them,
/// multi-digit counters; white below, black above so that few men attack a king.
fn src_longest_fen(cur: &mut Cursor, p: &mut RefPos) {
    let mut placed = [0usize; 2];
    let castle_ranks = cur.chance(120);
    for rank in 0..8i8 {
        // occupied files of this rank
        let files: Vec<i8> = if castle_ranks && (rank == 0 || rank == 7) {
            vec![0, 2, 4, 6, 7] // R1x1K1xR
        } else {
            match cur.below(6) {
                0 | 1 => vec![0, 2, 4, 6],
                2 | 3 => vec![1, 3, 5, 7],
                4 => vec![0, 2, 4, 5, 7],
                _ => vec![0, 1, 3, 5, 7],
            }
        };
        let col = if rank < 4 { Col::W } else { Col::B };
        for f in files {
            if placed[col as usize] >= 16 {
                break;
            }
            let s = mk_sq(f, rank).unwrap();
            let home = rank == 0 || rank == 7;
            let pc = if home && f == 4 {
                Pc::K
            } else if home && (f == 0 || f == 7) && castle_ranks {
                Pc::R
            } else if home {
                cur.pick(&[Pc::N, Pc::B, Pc::N, Pc::B, Pc::R, Pc::Q])
            } else {
                cur.pick(&[Pc::P, Pc::P, Pc::P, Pc::N, Pc::B, Pc::R, Pc::Q])
            };
            p.b[s as usize] = Some((col, pc));
            placed[col as usize] += 1;
        }
    }
    // kings: on e1/e8 if the pattern put a man there, otherwise replace some man of the home rank
    for (col, rank) in [(Col::W, 0i8), (Col::B, 7i8)] {
        if p.king_sq(col).is_none() {
            let cands: Vec<Sq> = (0..8i8).filter_map(|f| mk_sq(f, rank)).filter(|&s| p.b[s as usize].is_some()).collect();
            let s = cands[cur.below(cands.len())];
            p.b[s as usize] = Some((col, Pc::K));
        }
    }
    p.castle = [true; 4];
}

/// One to four pawns of the mover stacked on one file with enemy men diagonally in front of them on a neighbouring file
/// (sometimes on both): several pawn captures between the same pair of files, which is what the abbreviated capture
/// notation ("ed") has to tell apart; captures onto the last rank included.
fn src_pawn_stacks(cur: &mut Cursor, p: &mut RefPos) {
    place_kings(cur, p);
    let stacks = 1 + cur.below(2);
    for _ in 0..stacks {
        let fa = cur.below(8) as i8;
        let k = 1 + cur.below(4);
        let both = cur.chance(60);
        for _ in 0..k {
            let r = 1 + cur.below(6) as i8;
            let s = mk_sq(fa, r).unwrap();
            if p.b[s as usize].is_some() {
                continue;
            }
            p.b[s as usize] = Some((Col::W, Pc::P));
            for df in [-1i8, 1] {
                if !(both || (df == 1) == (fa < 4)) || !cur.chance(215) {
                    continue;
                }
                if let Some(t) = mk_sq(fa + df, r + 1) {
                    if p.b[t as usize].is_none() {
                        let mut pc = cur.pick(&[Pc::P, Pc::N, Pc::B, Pc::R, Pc::Q, Pc::P]);
                        if pc == Pc::P && !pawn_ok(t) {
                            pc = Pc::N;
                        }
                        p.b[t as usize] = Some((Col::B, pc));
                    }
                }
            }
        }
    }
    let n = cur.below(4);
    for _ in 0..n {
        let col = if cur.bool() { Col::W } else { Col::B };
        let pc = cur.pick(&WEIGHTED);
        put_random(cur, p, (col, pc));
    }
    p.side = Col::W;
}

fn src_corpus_mut(cur: &mut Cursor, p: &mut RefPos) {
    *p = ref_from_fen(CORPUS[cur.below(CORPUS.len())]).unwrap();
    let n = cur.below(5);
    for _ in 0..n {
        let occupied: Vec<Sq> = (0..64u8).filter(|&s| p.b[s as usize].is_some()).collect();
        match cur.below(6) {
            0 => {
                // move a man
                let s = occupied[cur.below(occupied.len())];
                let m = p.b[s as usize].unwrap();
                let t = if m.1 == Pc::P { free_sq(cur, p, pawn_ok) } else { free_sq(cur, p, |_| true) };
                if let Some(t) = t {
                    p.b[s as usize] = None;
                    p.b[t as usize] = Some(m);
                }
            }
            1 => {
                let c = if cur.bool() { Col::B } else { Col::W };
                let pc = cur.pick(&WEIGHTED);
                put_random(cur, p, (c, pc));
            }
            2 => {
                let s = occupied[cur.below(occupied.len())];
                if !matches!(p.b[s as usize], Some((_, Pc::K))) {
                    p.b[s as usize] = None;
                }
            }
            3 => {
                let s = occupied[cur.below(occupied.len())];
                if let Some((c, pc)) = p.b[s as usize] {
                    if pc != Pc::K {
                        let mut np = cur.pick(&WEIGHTED);
                        if np == Pc::P && !pawn_ok(s) {
                            np = Pc::N;
                        }
                        p.b[s as usize] = Some((if cur.bool() { c.inv() } else { c }, np));
                    }
                }
            }
            4 => p.side = p.side.inv(),
            _ => {
                let r = cur.u8();
                p.castle = [r & 1 != 0, r & 2 != 0, r & 4 != 0, r & 8 != 0];
            }
        }
    }
}

/// A double pawn step that gives check where (almost) every reply is an en-passant capture: the
/// checked king is boxed in by its own men. Yields either that position (side in check, mark set) or
/// its predecessor (the double step still to be played, so that its SAN needs "+" rather than "#").
fn src_ep_only_reply(cur: &mut Cursor, p: &mut RefPos) -> bool {
    let us = Col::W; // the side that is checked by the black pawn
    let them = Col::B;
    let f = cur.below(8) as i8;
    let kf = if f == 0 {
        1
    } else if f == 7 {
        6
    } else if cur.bool() {
        f + 1
    } else {
        f - 1
    };
    let pawn = mk_sq(f, 4).unwrap();
    let king = mk_sq(kf, 3).unwrap();
    p.b[pawn as usize] = Some((them, Pc::P));
    p.b[king as usize] = Some((us, Pc::K));
    // capturer(s) beside the pawn
    let mut placed = false;
    for df in [-1i8, 1] {
        if let Some(s) = mk_sq(f + df, 4) {
            if (!placed && (cur.bool() || df == 1)) || cur.chance(60) {
                p.b[s as usize] = Some((us, Pc::P));
                placed = true;
            }
        }
    }
    // box the king in with own men (never on the squares the double step needs)
    let origin = mk_sq(f, 6).unwrap();
    let passed = mk_sq(f, 5).unwrap();
    for d in [(1i8, 0i8), (1, 1), (0, 1), (-1, 1), (-1, 0), (-1, -1), (0, -1), (1, -1)] {
        if let Some(s) = mk_sq(kf + d.0, 3 + d.1) {
            if p.b[s as usize].is_none() && s != origin && s != passed && cur.chance(215) {
                let mut pc = cur.pick(&[Pc::P, Pc::N, Pc::B, Pc::R, Pc::P, Pc::N]);
                if pc == Pc::P && !pawn_ok(s) {
                    pc = Pc::N;
                }
                p.b[s as usize] = Some((us, pc));
            }
        }
    }
    // black king far away, a few black pieces that may cover the remaining flight squares / pin a capturer
    if let Some(bk) = free_sq(cur, p, |s| !adjacent(s, king) && s != origin && s != passed) {
        p.b[bk as usize] = Some((them, Pc::K));
    }
    let n = cur.below(4);
    for _ in 0..n {
        let pc = cur.pick(&[Pc::R, Pc::B, Pc::Q, Pc::N]);
        if let Some(s) = free_sq(cur, p, |s| s != origin && s != passed) {
            p.b[s as usize] = Some((them, pc));
        }
    }
    p.side = us;
    p.ep = Some(pawn);
    let predecessor = cur.bool();
    if predecessor {
        p.b[pawn as usize] = None;
        p.b[origin as usize] = Some((them, Pc::P));
        p.ep = None;
        p.side = them;
    }
    predecessor
}

/// Maximal-mobility positions with a few men displaced (move lists near their capacity).
fn src_max_mobility(cur: &mut Cursor, p: &mut RefPos) {
    *p = ref_from_fen(MAX_SEEDS[cur.below(MAX_SEEDS.len())]).unwrap();
    let n = cur.below(3);
    for _ in 0..n {
        let s = cur.below(64);
        let t = cur.below(64);
        if let Some(m) = p.b[s] {
            if p.b[t].is_none() && m.1 != Pc::K && !(m.1 == Pc::P && !pawn_ok(t as Sq)) {
                p.b[s] = None;
                p.b[t] = Some(m);
            }
        }
    }
}

/// The 32 men of the initial array, shuffled inside each side's two home ranks (the occupancy of the
/// initial position with arbitrary identities: valid, but mostly unreachable).
fn src_shuffled_camps(cur: &mut Cursor, p: &mut RefPos) {
    for (c, ranks) in [(Col::W, [0i8, 1]), (Col::B, [7i8, 6])] {
        let mut men: Vec<Pc> = vec![Pc::K, Pc::Q, Pc::R, Pc::R, Pc::B, Pc::B, Pc::N, Pc::N];
        men.extend(std::iter::repeat(Pc::P).take(8));
        // retype a few
        let k = cur.below(4);
        for _ in 0..k {
            let i = 1 + cur.below(15);
            men[i] = cur.pick(&[Pc::Q, Pc::R, Pc::B, Pc::N, Pc::P]);
        }
        // Fisher-Yates driven by the genome
        for i in (1..men.len()).rev() {
            let j = cur.below(i + 1);
            men.swap(i, j);
        }
        let mut sqs: Vec<Sq> = Vec::new();
        for r in ranks {
            for f in 0..8 {
                sqs.push(mk_sq(f, r).unwrap());
            }
        }
        // pawns may not stand on the back rank: swap them with non-pawns of the second rank
        for i in 0..8 {
            if men[i] == Pc::P {
                if let Some(j) = (8..16).find(|&j| men[j] != Pc::P) {
                    men.swap(i, j);
                } else {
                    men[i] = Pc::N;
                }
            }
        }
        for (i, s) in sqs.iter().enumerate() {
            p.b[*s as usize] = Some((c, men[i]));
        }
    }
}

/// Positions in which the side to move has very few moves: a king hemmed in by enemy line pieces plus one to
/// three men that are blocked pawns, pawns about to promote next to enemy men, pawns on their start rank, or
/// pieces pinned by construction. The legal set is often empty or a single move of a special kind, which is
/// where early-exit searches ("has a legal move") and check/mate marks can go wrong.
fn src_few_moves(cur: &mut Cursor, p: &mut RefPos) {
    let us = Col::W;
    let them = Col::B;
    let edge: Vec<Sq> = (0..64u8).filter(|&s| file_of(s) == 0 || file_of(s) == 7 || rank_of(s) == 0 || rank_of(s) == 7).collect();
    let k = if cur.chance(170) { edge[cur.below(edge.len())] } else { cur.below(64) as Sq };
    p.b[k as usize] = Some((us, Pc::K));
    if let Some(bk) = free_sq(cur, p, |s| !adjacent(s, k)) {
        p.b[bk as usize] = Some((them, Pc::K));
    }
    // our few men
    let n = 1 + cur.below(3);
    for _ in 0..n {
        match cur.below(6) {
            0 => {
                // pawn on its start rank, often with the double-step square on a line to our king
                if let Some(s) = free_sq(cur, p, |s| rank_of(s) == 1) {
                    p.b[s as usize] = Some((us, Pc::P));
                    if cur.chance(60) {
                        let front = mk_sq(file_of(s), 2).unwrap();
                        if p.b[front as usize].is_none() {
                            p.b[front as usize] = Some((them, cur.pick(&[Pc::P, Pc::N])));
                        }
                    }
                }
            }
            1 | 2 => {
                // pawn on the 7th, enemy men on the 8th beside / in front of it
                if let Some(s) = free_sq(cur, p, |s| rank_of(s) == 6) {
                    p.b[s as usize] = Some((us, Pc::P));
                    for df in [-1i8, 0, 1] {
                        if let Some(t) = mk_sq(file_of(s) + df, 7) {
                            if p.b[t as usize].is_none() && cur.chance(if df == 0 { 170 } else { 110 }) {
                                p.b[t as usize] = Some((them, cur.pick(&[Pc::R, Pc::N, Pc::B, Pc::Q])));
                            }
                        }
                    }
                    // a second pawn two files away so that two pawns can flank one target
                    if cur.chance(90) {
                        if let Some(t) = mk_sq(file_of(s) + 2, 6) {
                            if p.b[t as usize].is_none() {
                                p.b[t as usize] = Some((us, Pc::P));
                            }
                        }
                    }
                }
            }
            3 => {
                // blocked pawn anywhere
                if let Some(s) = free_sq(cur, p, |s| (1..=5).contains(&rank_of(s))) {
                    let front = mk_sq(file_of(s), rank_of(s) + 1).unwrap();
                    if p.b[front as usize].is_none() {
                        p.b[s as usize] = Some((us, Pc::P));
                        p.b[front as usize] = Some((them, cur.pick(&[Pc::P, Pc::N, Pc::B])));
                        if matches!(p.b[front as usize], Some((_, Pc::P))) && !pawn_ok(front) {
                            p.b[front as usize] = Some((them, Pc::N));
                        }
                    }
                }
            }
            4 => {
                // pawn on the 5th beside an enemy pawn that has just made a double step
                let f = cur.below(8) as i8;
                let df = if f == 0 { 1 } else if f == 7 { -1 } else if cur.bool() { 1 } else { -1 };
                let (a, v) = (mk_sq(f, 4).unwrap(), mk_sq(f + df, 4).unwrap());
                let behind = mk_sq(f + df, 5).unwrap();
                if p.b[a as usize].is_none() && p.b[v as usize].is_none() && p.b[behind as usize].is_none() {
                    p.b[a as usize] = Some((us, Pc::P));
                    p.b[v as usize] = Some((them, Pc::P));
                    p.ep = Some(v);
                    if cur.chance(110) {
                        if let Some(a2) = mk_sq(f + 2 * df, 4) {
                            if p.b[a2 as usize].is_none() {
                                p.b[a2 as usize] = Some((us, Pc::P));
                            }
                        }
                    }
                }
            }
            _ => {
                // a piece pinned by construction: between our king and an enemy line piece
                let d = cur.pick(&[(1i8, 0i8), (-1, 0), (0, 1), (0, -1), (1, 1), (1, -1), (-1, 1), (-1, -1)]);
                let mut ray: Vec<Sq> = Vec::new();
                let (mut f, mut r) = (file_of(k) + d.0, rank_of(k) + d.1);
                while let Some(s) = mk_sq(f, r) {
                    ray.push(s);
                    f += d.0;
                    r += d.1;
                }
                if ray.len() >= 2 && ray.iter().all(|s| p.b[*s as usize].is_none()) {
                    let i = cur.below(ray.len() - 1);
                    let j = i + 1 + cur.below(ray.len() - 1 - i);
                    let diag = d.0 != 0 && d.1 != 0;
                    let mut pc = cur.pick(&[Pc::N, Pc::B, Pc::R, Pc::P]);
                    if pc == Pc::P && !pawn_ok(ray[i]) {
                        pc = Pc::N;
                    }
                    p.b[ray[i] as usize] = Some((us, pc));
                    p.b[ray[j] as usize] = Some((them, if cur.bool() { Pc::Q } else if diag { Pc::B } else { Pc::R }));
                }
            }
        }
    }
    // enemy line pieces that take the king's squares away
    let m = 1 + cur.below(4);
    for _ in 0..m {
        let pc = cur.pick(&[Pc::Q, Pc::R, Pc::R, Pc::B, Pc::N]);
        if let Some(s) = free_sq(cur, p, |s| (file_of(s) - file_of(k)).abs().max((rank_of(s) - rank_of(k)).abs()) >= 2) {
            p.b[s as usize] = Some((them, pc));
        }
    }
    p.side = us;
}

/// Directed search for positions without legal moves that carry a lot of own material: starting from a random
/// position, legal moves are eliminated one at a time (an own man put on the target square, a capturable man turned
/// into an own one, a far-away enemy line piece guarding a king flight square) as long as the count goes down.
/// Yields stalemates and mates with boxed-in knights, rooks, bishops and blocked pawns - shapes that uniform
/// sampling never produces - or, when the search stops early, positions with very few moves.
fn src_no_moves_search(cur: &mut Cursor, p: &mut RefPos) {
    let us = Col::W;
    let them = Col::B;
    // start: king near an edge, 3-7 own men nearby, enemy king and a couple of enemy pieces
    let edge: Vec<Sq> = (0..64u8).filter(|&s| file_of(s) == 0 || file_of(s) == 7 || rank_of(s) == 0 || rank_of(s) == 7).collect();
    let k = edge[cur.below(edge.len())];
    p.b[k as usize] = Some((us, Pc::K));
    if let Some(bk) = free_sq(cur, p, |s| !adjacent(s, k)) {
        p.b[bk as usize] = Some((them, Pc::K));
    }
    let n = 2 + cur.below(5);
    for _ in 0..n {
        let pc = cur.pick(&[Pc::N, Pc::P, Pc::P, Pc::R, Pc::B, Pc::N, Pc::Q]);
        let near = |s: Sq| (file_of(s) - file_of(k)).abs() <= 3 && (rank_of(s) - rank_of(k)).abs() <= 3;
        let s = if pc == Pc::P { free_sq(cur, p, |s| pawn_ok(s) && near(s)) } else { free_sq(cur, p, near) };
        if let Some(s) = s {
            p.b[s as usize] = Some((us, pc));
        }
    }
    let m = 1 + cur.below(3);
    for _ in 0..m {
        let pc = cur.pick(&[Pc::Q, Pc::R, Pc::B, Pc::N, Pc::P]);
        let s = if pc == Pc::P { free_sq(cur, p, pawn_ok) } else { free_sq(cur, p, |_| true) };
        if let Some(s) = s {
            p.b[s as usize] = Some((them, pc));
        }
    }
    p.side = us;
    let valid = |q: &RefPos| q.count(Col::W) <= 16 && q.count(Col::B) <= 16 && !q.in_check(them) && q.king_sq(us).is_some() && q.king_sq(them).is_some();
    // make the start valid for the search (the common repair runs again afterwards)
    loop {
        let bk = p.king_sq(them).unwrap();
        match p.attackers(bk, us).first() {
            Some(&a) => p.b[a as usize] = None,
            None => break,
        }
    }
    let steps = 10 + cur.below(50);
    for _ in 0..steps {
        let l = p.legal();
        if l.is_empty() {
            break;
        }
        let mv = l[cur.below(l.len())];
        let mut q = p.clone();
        let sel = cur.below(4);
        if mv.man.1 == Pc::K || sel == 3 {
            // guard the destination with a distant enemy line piece, or occupy it with an own man
            if sel >= 2 {
                let pc = cur.pick(&[Pc::R, Pc::B, Pc::Q]);
                let cands: Vec<Sq> = (0..64u8)
                    .filter(|&s| {
                        if q.b[s as usize].is_some() || adjacent(s, mv.to) {
                            return false;
                        }
                        let mut t = q.clone();
                        t.b[s as usize] = Some((them, pc));
                        t.reaches(s, mv.to)
                    })
                    .collect();
                if !cands.is_empty() {
                    q.b[cands[cur.below(cands.len())] as usize] = Some((them, pc));
                }
            } else if q.b[mv.to as usize].is_none() {
                let mut pc = cur.pick(&[Pc::P, Pc::N, Pc::B, Pc::R]);
                if pc == Pc::P && !pawn_ok(mv.to) {
                    pc = Pc::N;
                }
                q.b[mv.to as usize] = Some((us, pc));
            }
        } else if q.b[mv.to as usize].is_none() {
            // block the target square with an own man (for pawn pushes: an enemy pawn works too)
            let mut pc = cur.pick(&[Pc::P, Pc::P, Pc::N, Pc::B, Pc::R]);
            if pc == Pc::P && !pawn_ok(mv.to) {
                pc = Pc::N;
            }
            let c = if mv.man.1 == Pc::P && cur.bool() { them } else { us };
            q.b[mv.to as usize] = Some((c, pc));
        } else {
            // a capture: the victim becomes an own man, or disappears
            if cur.bool() {
                let (_, vpc) = q.b[mv.to as usize].unwrap();
                if vpc != Pc::K {
                    let mut pc = vpc;
                    if pc == Pc::P && !pawn_ok(mv.to) {
                        pc = Pc::N;
                    }
                    q.b[mv.to as usize] = Some((us, pc));
                }
            } else if !matches!(q.b[mv.to as usize], Some((_, Pc::K))) {
                q.b[mv.to as usize] = None;
            }
        }
        if q != *p && valid(&q) && q.legal().len() < l.len() {
            *p = q;
        }
    }
}

/// Colour flip: mirror ranks, swap colours, side, rights, mark.
pub fn flip_colors(p: &RefPos) -> RefPos {
    let mut n = RefPos::empty();
    for s in 0..64u8 {
        let t = mk_sq(file_of(s), 7 - rank_of(s)).unwrap();
        n.b[t as usize] = p.b[s as usize].map(|(c, pc)| (c.inv(), pc));
    }
    n.side = p.side.inv();
    n.castle = [p.castle[BK], p.castle[BQ], p.castle[WK], p.castle[WQ]];
    n.ep = p.ep.map(|s| mk_sq(file_of(s), 7 - rank_of(s)).unwrap());
    n.half = p.half;
    n.full = p.full;
    n
}

/// Left-right flip (only meaningful without castling rights).
pub fn flip_files(p: &RefPos) -> RefPos {
    let mut n = RefPos::empty();
    for s in 0..64u8 {
        let t = mk_sq(7 - file_of(s), rank_of(s)).unwrap();
        n.b[t as usize] = p.b[s as usize];
    }
    n.side = p.side;
    n.castle = [false; 4];
    n.ep = p.ep.map(|s| mk_sq(7 - file_of(s), rank_of(s)).unwrap());
    n.half = p.half;
    n.full = p.full;
    n
}

/// Constructive repair: makes any draft a valid position (by the reference rules).
pub fn repair(cur: &mut Cursor, p: &mut RefPos, keep_ep: bool) {
    // 1. kings
    for c in [Col::W, Col::B] {
        let ks: Vec<Sq> = (0..64u8).filter(|&s| p.b[s as usize] == Some((c, Pc::K))).collect();
        for &s in ks.iter().skip(1) {
            p.b[s as usize] = None;
        }
        if ks.is_empty() {
            let other = p.king_sq(c.inv());
            let s = free_sq(cur, p, |s| other.map_or(true, |o| !adjacent(s, o)));
            match s {
                Some(s) => p.b[s as usize] = Some((c, Pc::K)),
                None => {
                    // board full: overwrite the first non-king square
                    let s = (0..64u8)
                        .find(|&s| {
                            !matches!(p.b[s as usize], Some((_, Pc::K))) && other.map_or(true, |o| !adjacent(s, o))
                        })
                        .unwrap();
                    p.b[s as usize] = Some((c, Pc::K));
                }
            }
        }
    }
    let (wk, bk) = (p.king_sq(Col::W).unwrap(), p.king_sq(Col::B).unwrap());
    if adjacent(wk, bk) {
        p.b[bk as usize] = None;
        let s = match free_sq(cur, p, |s| !adjacent(s, wk)) {
            Some(s) => s,
            None => (0..64u8).find(|&s| !adjacent(s, wk) && s != wk).unwrap(),
        };
        p.b[s as usize] = Some((Col::B, Pc::K));
    }
    // 2. pawns off the back ranks
    for s in 0..64u8 {
        if matches!(p.b[s as usize], Some((_, Pc::P))) && !pawn_ok(s) {
            p.b[s as usize] = None;
        }
    }
    // 3. at most 16 men per side
    for c in [Col::W, Col::B] {
        let mut n = p.count(c);
        let mut s = 63i32;
        while n > 16 && s >= 0 {
            if matches!(p.b[s as usize], Some((cc, pc)) if cc == c && pc != Pc::K) {
                p.b[s as usize] = None;
                n -= 1;
            }
            s -= 1;
        }
    }
    // 4. the side not to move must not be in check
    let opp = p.side.inv();
    loop {
        let k = p.king_sq(opp).unwrap();
        let at = p.attackers(k, p.side);
        match at.first() {
            None => break,
            Some(&a) => p.b[a as usize] = None, // never a king: kings are not adjacent
        }
    }
    // 5. castling rights only where king and rook are at home
    let n = p.normalised();
    p.castle = n.castle;
    // 6. en-passant mark: keep / choose only marks that satisfy the gate and survive normalisation
    let want_rank = if p.side == Col::W { 4 } else { 3 };
    let ok_mark = |p: &RefPos, s: Sq| {
        rank_of(s) == want_rank
            && p.b[s as usize] == Some((p.side.inv(), Pc::P))
            && p.b[mk_sq(file_of(s), rank_of(s) + p.side.dir()).unwrap() as usize].is_none()
    };
    if let Some(s) = p.ep {
        if !(keep_ep && ok_mark(p, s)) {
            p.ep = None;
        }
    }
}

/// Possibly sets an ep mark chosen by the genome among all admissible candidates.
fn maybe_add_ep(cur: &mut Cursor, p: &mut RefPos) {
    let want_rank = if p.side == Col::W { 4 } else { 3 };
    let cands: Vec<Sq> = (0..64u8)
        .filter(|&s| {
            rank_of(s) == want_rank
                && p.b[s as usize] == Some((p.side.inv(), Pc::P))
                && p.b[mk_sq(file_of(s), rank_of(s) + p.side.dir()).unwrap() as usize].is_none()
        })
        .collect();
    let sel = cur.u8();
    if !cands.is_empty() && p.ep.is_none() && sel >= 150 {
        // prefer candidates that have an adjacent capturer
        let with_capt: Vec<Sq> = cands
            .iter()
            .copied()
            .filter(|&s| {
                [-1i8, 1].iter().any(|d| {
                    mk_sq(file_of(s) + d, rank_of(s)).map_or(false, |t| p.b[t as usize] == Some((p.side, Pc::P)))
                })
            })
            .collect();
        let pool = if !with_capt.is_empty() && sel >= 180 { &with_capt } else { &cands };
        p.ep = Some(pool[((sel as usize - 150) * pool.len()) / 106]);
    }
}

/// Main entry: decodes a valid position from the genome. Returns the position and its source label.
pub fn gen_position(cur: &mut Cursor) -> (RefPos, &'static str) {
    let sel = cur.below(SOURCES.len());
    gen_position_from(cur, sel)
}

pub fn gen_position_from(cur: &mut Cursor, sel: usize) -> (RefPos, &'static str) {
    let mut p = RefPos::empty();
    let mut keep_ep = false;
    let mut own_side = false;
    match sel {
        0 => src_sparse(cur, &mut p),
        1 => src_dense(cur, &mut p),
        2 => {
            src_playout(cur, &mut p);
            keep_ep = true;
            own_side = true;
        }
        3 | 11 => {
            src_ep_family(cur, &mut p, sel == 11);
            keep_ep = true;
            own_side = true;
        }
        4 => src_castle_family(cur, &mut p),
        5 => {
            src_promo_family(cur, &mut p);
            own_side = true;
        }
        6 => {
            src_pin_check_family(cur, &mut p);
            own_side = true;
        }
        7 => src_material_family(cur, &mut p),
        8 => {
            src_mate_family(cur, &mut p);
            own_side = true;
        }
        9 => {
            src_many_queens(cur, &mut p);
            own_side = true;
        }
        12 => {
            let pred = src_ep_only_reply(cur, &mut p);
            keep_ep = !pred;
            own_side = true;
        }
        13 => {
            src_max_mobility(cur, &mut p);
            own_side = true;
        }
        14 => src_shuffled_camps(cur, &mut p),
        15 => {
            src_few_moves(cur, &mut p);
            keep_ep = true;
            own_side = true;
        }
        16 => {
            src_no_moves_search(cur, &mut p);
            own_side = true;
        }
        17 => src_crowded_area(cur, &mut p),
        19 => {
            src_pawn_stacks(cur, &mut p);
            own_side = true;
        }
        18 => {
            src_longest_fen(cur, &mut p);
            p.side = if cur.bool() { Col::B } else { Col::W };
            own_side = true;
        }
        _ => {
            src_corpus_mut(cur, &mut p);
            keep_ep = true;
            own_side = true;
        }
    }
    if !own_side {
        p.side = if cur.bool() { Col::B } else { Col::W };
        if sel != 4 {
            let r = cur.u8();
            p.castle = [r & 1 != 0, r & 2 != 0, r & 4 != 0, r & 8 != 0];
        }
    }
    // counters
    let csel = cur.u8();
    if sel != 2 || csel >= 128 {
        p.half = gen_counter(cur);
        p.full = gen_counter(cur).max(1);
        if csel & 1 == 1 {
            p.full = gen_counter(cur);
        }
    }
    if sel == 18 && cur.bool() {
        p.half = p.half.max(10_000 + (cur.u16() % 50_000));
        p.full = p.full.max(10_000 + (cur.u16() % 50_000));
    }
    if cur.bool() {
        p = flip_colors(&p);
    }
    repair(cur, &mut p, keep_ep);
    maybe_add_ep(cur, &mut p);
    (p, SOURCES[sel])
}

/// A near-identical "twin" of a position, chosen by a selector taken from the genome: one man retyped, recoloured,
/// removed, added or moved one step, a counter changed, the side flipped, or one enemy man retyped so that exactly the
/// answer to "is the mover in check" changes. Three selectors out of four give none.
/// The twin need not be valid. It is handed to the library just before the position itself (DESIGN 5.6), so that any
/// state the library keeps between calls - caches, memoised verdicts - is as misleading as it can be.
pub fn twin_of(p: &RefPos, sel: u32) -> Option<RefPos> {
    if sel & 3 != 1 {
        return None;
    }
    let bytes = super::splitmix(sel as u64 ^ 0x7477_696e).to_le_bytes();
    let mut cur = Cursor::new(&bytes);
    let mut t = p.clone();
    let men: Vec<Sq> = (0..64u8).filter(|&s| matches!(p.b[s as usize], Some((_, pc)) if pc != Pc::K)).collect();
    let kind = cur.below(11);
    match kind {
        9 | 10 => {
            // retype one man of the side not to move so that exactly the answer to "is the mover in check" changes
            let was = p.in_check(p.side);
            let mut cands: Vec<(Sq, Pc)> = Vec::new();
            for &s in &men {
                let (c, old) = p.b[s as usize].unwrap();
                if c == p.side {
                    continue;
                }
                for x in [Pc::P, Pc::N, Pc::B, Pc::R, Pc::Q] {
                    if x == old || (x == Pc::P && !pawn_ok(s)) {
                        continue;
                    }
                    t.b[s as usize] = Some((c, x));
                    if t.in_check(p.side) != was {
                        cands.push((s, x));
                    }
                    t.b[s as usize] = Some((c, old));
                }
            }
            if cands.is_empty() {
                return None;
            }
            let (s, x) = cands[cur.below(cands.len())];
            t.b[s as usize] = Some((p.side.inv(), x));
        }
        0 | 1 if !men.is_empty() => {
            let s = men[cur.below(men.len())];
            let (c, old) = p.b[s as usize].unwrap();
            let pool: Vec<Pc> = [Pc::P, Pc::N, Pc::B, Pc::R, Pc::Q].into_iter().filter(|&x| x != old && (x != Pc::P || pawn_ok(s))).collect();
            t.b[s as usize] = Some((c, pool[cur.below(pool.len())]));
        }
        2 if !men.is_empty() => {
            let s = men[cur.below(men.len())];
            let (c, pc) = p.b[s as usize].unwrap();
            t.b[s as usize] = Some((c.inv(), pc));
        }
        3 => t.full = match cur.below(4) {
            0 => p.full.wrapping_add(1),
            1 => p.full.wrapping_sub(1),
            2 => 1,
            _ => cur.u16(),
        },
        4 => t.half = match cur.below(4) {
            0 => p.half.wrapping_add(1),
            1 => p.half.wrapping_sub(1),
            2 => 0,
            _ => cur.u16() % 160,
        },
        5 if !men.is_empty() => {
            let s = men[cur.below(men.len())];
            t.b[s as usize] = None;
        }
        6 => {
            let col = if cur.bool() { Col::W } else { Col::B };
            let pc = cur.pick(&[Pc::P, Pc::N, Pc::B, Pc::R, Pc::Q]);
            put_random(&mut cur, &mut t, (col, pc));
        }
        7 if !men.is_empty() => {
            let s = men[cur.below(men.len())];
            let m = p.b[s as usize].unwrap();
            let d = cur.pick(&[(0i8, 1i8), (1, 0), (0, -1), (-1, 0), (1, 1), (-1, -1), (1, -1), (-1, 1)]);
            if let Some(to) = mk_sq(file_of(s) + d.0, rank_of(s) + d.1) {
                if p.b[to as usize].is_none() && (m.1 != Pc::P || pawn_ok(to)) {
                    t.b[s as usize] = None;
                    t.b[to as usize] = Some(m);
                }
            }
        }
        _ => {
            t.side = p.side.inv();
            t.ep = None;
        }
    }
    if t == *p {
        return None;
    }
    Some(t)
}
