//! Generators: genome cursor, valid-position sources, raw boards, strings.

pub mod positions;
pub mod raw;
pub mod strings;

/// Byte-genome decoder. Exhausted input reads as zeros, zero bytes map to the simplest choice,
/// indices are mapped monotonically so that byte shrinking gives simpler cases.
pub struct Cursor<'a> {
    data: &'a [u8],
    pos: usize,
}

impl<'a> Cursor<'a> {
    pub fn new(data: &'a [u8]) -> Self {
        Cursor { data, pos: 0 }
    }
    pub fn u8(&mut self) -> u8 {
        let v = self.data.get(self.pos).copied().unwrap_or(0);
        self.pos += 1;
        v
    }
    pub fn u16(&mut self) -> u16 {
        ((self.u8() as u16) << 8) | self.u8() as u16
    }
    pub fn u64(&mut self) -> u64 {
        let mut v = 0u64;
        for _ in 0..8 {
            v = (v << 8) | self.u8() as u64;
        }
        v
    }
    /// value in 0..n (n >= 1), monotone in the consumed bytes
    pub fn below(&mut self, n: usize) -> usize {
        debug_assert!(n >= 1);
        if n <= 1 {
            // still consume a byte so that the layout of the genome does not depend on n
            self.u8();
            return 0;
        }
        if n <= 256 {
            (self.u8() as usize * n) >> 8
        } else {
            (self.u16() as usize * n) >> 16
        }
    }
    pub fn bool(&mut self) -> bool {
        self.u8() & 1 == 1
    }
    /// true with probability p/256 (false for zero bytes)
    pub fn chance(&mut self, p: u16) -> bool {
        let b = self.u8() as u16;
        b != 0 && 256 - b <= p
    }
    pub fn pick<T: Copy>(&mut self, xs: &[T]) -> T {
        xs[self.below(xs.len())]
    }
    pub fn exhausted(&self) -> bool {
        self.pos >= self.data.len()
    }
    pub fn consumed(&self) -> usize {
        self.pos
    }
}

/// Counter values used by every source: edges of the 50/75-move rules and of u16, plus random.
/// Rule boundaries (50/75-move rule in plies, saturation) and representation boundaries (digit counts, byte and sign widths).
pub const COUNTER_EDGES: [u16; 29] = [
    0, 1, 2, 9, 10, 11, 49, 50, 98, 99, 100, 101, 148, 149, 150, 151, 255, 256, 257, 999, 1000, 1001, 9999, 10000, 10001, 32767, 32768, 65534, 65535,
];

pub fn gen_counter(cur: &mut Cursor) -> u16 {
    let sel = cur.u8();
    if sel < 96 {
        COUNTER_EDGES[(sel as usize * COUNTER_EDGES.len()) / 96]
    } else if sel < 200 {
        (cur.u8() % 120) as u16
    } else {
        cur.u16()
    }
}

pub fn splitmix(mut x: u64) -> u64 {
    x = x.wrapping_add(0x9E3779B97F4A7C15);
    let mut z = x;
    z = (z ^ (z >> 30)).wrapping_mul(0xBF58476D1CE4E5B9);
    z = (z ^ (z >> 27)).wrapping_mul(0x94D049BB133111EB);
    z ^ (z >> 31)
}
