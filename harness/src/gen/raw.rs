//! Raw (unvalidated) boards (DESIGN §5.2), in the reference representation.

use super::positions::gen_position;
use super::{gen_counter, Cursor};
use crate::refmodel::*;
use serde_json::{json, Value};

pub fn raw_to_json(p: &RefPos, src: &str) -> Value {
    let fen = p.fen();
    let board = fen.split(' ').next().unwrap().to_string();
    let rights: String = ['K', 'Q', 'k', 'q'].iter().enumerate().filter(|(i, _)| p.castle[*i]).map(|(_, c)| *c).collect();
    json!({
        "board": board,
        "side": if p.side == Col::W { "w" } else { "b" },
        "rights": rights,
        "ep_pawn": p.ep.map(sq_name),
        "half": p.half,
        "full": p.full,
        "src": src,
    })
}

pub fn raw_from_json(v: &Value) -> Result<RefPos, String> {
    let board = v["board"].as_str().ok_or("no board")?;
    let mut p = ref_from_fen(&format!("{} w - - 0 1", board))?;
    p.side = if v["side"].as_str() == Some("b") { Col::B } else { Col::W };
    let rights = v["rights"].as_str().unwrap_or("");
    p.castle = [rights.contains('K'), rights.contains('Q'), rights.contains('k'), rights.contains('q')];
    p.ep = match v["ep_pawn"].as_str() {
        Some(s) => Some(parse_sq(s).ok_or("bad ep_pawn")?),
        None => None,
    };
    p.half = v["half"].as_u64().unwrap_or(0) as u16;
    p.full = v["full"].as_u64().unwrap_or(1) as u16;
    Ok(p)
}

const CELLS: [Option<Man>; 13] = [
    None,
    Some((Col::W, Pc::P)),
    Some((Col::W, Pc::K)),
    Some((Col::W, Pc::N)),
    Some((Col::W, Pc::B)),
    Some((Col::W, Pc::R)),
    Some((Col::W, Pc::Q)),
    Some((Col::B, Pc::P)),
    Some((Col::B, Pc::K)),
    Some((Col::B, Pc::N)),
    Some((Col::B, Pc::B)),
    Some((Col::B, Pc::R)),
    Some((Col::B, Pc::Q)),
];

fn random_man(cur: &mut Cursor, kings: bool) -> Man {
    loop {
        let m = CELLS[1 + cur.below(12)].unwrap();
        if kings || m.1 != Pc::K {
            return m;
        }
    }
}

fn any_free(cur: &mut Cursor, p: &RefPos) -> Option<Sq> {
    let v: Vec<Sq> = (0..64u8).filter(|&s| p.b[s as usize].is_none()).collect();
    if v.is_empty() {
        None
    } else {
        Some(v[cur.below(v.len())])
    }
}

pub const RAW_SOURCES: [&str; 5] = ["raw_arbitrary", "raw_valid", "raw_fault", "raw_normalise", "raw_crowded"];

/// Raw boards biased so that every rejection class and every normalisation kind is hit.
pub fn gen_raw(cur: &mut Cursor) -> (RefPos, &'static str) {
    let sel = cur.below(10);
    match sel {
        0 | 1 => {
            // arbitrary assignment with a density knob
            let mut p = RefPos::empty();
            let density = cur.u8();
            for s in 0..64usize {
                if cur.u8() < density / 2 {
                    p.b[s] = CELLS[cur.below(13)];
                }
            }
            p.side = if cur.bool() { Col::B } else { Col::W };
            let r = cur.u8();
            p.castle = [r & 1 != 0, r & 2 != 0, r & 4 != 0, r & 8 != 0];
            if cur.bool() {
                p.ep = Some(cur.below(64) as Sq);
            }
            p.half = gen_counter(cur);
            p.full = gen_counter(cur);
            (p, RAW_SOURCES[0])
        }
        2 => {
            let (p, _) = gen_position(cur);
            (p, RAW_SOURCES[1])
        }
        3..=5 => {
            // valid plus one injected fault
            let (mut p, _) = gen_position(cur);
            match cur.below(11) {
                9 => {
                    // many kings of one colour: 2..=17, with a bias to 15, 16 and 17
                    let c = if cur.bool() { Col::B } else { Col::W };
                    let target = cur.pick(&[2usize, 3, 8, 15, 16, 16, 17]);
                    if cur.bool() {
                        // a side made of kings only
                        for s in 0..64usize {
                            if matches!(p.b[s], Some((cc, pc)) if cc == c && pc != Pc::K) {
                                p.b[s] = None;
                            }
                        }
                    }
                    let mut have = p.b.iter().filter(|m| **m == Some((c, Pc::K))).count();
                    while have < target {
                        match any_free(cur, &p) {
                            Some(s) => {
                                p.b[s as usize] = Some((c, Pc::K));
                                have += 1;
                            }
                            None => break,
                        }
                    }
                }
                10 => {
                    // a side without any man, or the board full of one colour's men
                    let c = if cur.bool() { Col::B } else { Col::W };
                    if cur.bool() {
                        for s in 0..64usize {
                            if matches!(p.b[s], Some((cc, _)) if cc == c) {
                                p.b[s] = None;
                            }
                        }
                    } else {
                        for s in 0..64usize {
                            if p.b[s].is_none() {
                                p.b[s] = Some((c, cur.pick(&[Pc::N, Pc::B, Pc::R, Pc::Q])));
                            }
                        }
                    }
                }
                0 => {
                    // remove a king
                    let c = if cur.bool() { Col::B } else { Col::W };
                    let k = p.king_sq(c).unwrap();
                    p.b[k as usize] = None;
                }
                1 => {
                    // extra king
                    let c = if cur.bool() { Col::B } else { Col::W };
                    if let Some(s) = any_free(cur, &p) {
                        p.b[s as usize] = Some((c, Pc::K));
                    }
                }
                2 => {
                    // pawn on a back rank
                    let c = if cur.bool() { Col::B } else { Col::W };
                    let r = if cur.bool() { 0 } else { 7 };
                    let f = cur.below(8) as i8;
                    let s = mk_sq(f, r).unwrap();
                    if !matches!(p.b[s as usize], Some((_, Pc::K))) {
                        p.b[s as usize] = Some((c, Pc::P));
                    }
                }
                3 => {
                    // too many men: fill up to 15..18 men of one colour
                    let c = if cur.bool() { Col::B } else { Col::W };
                    let target = 15 + cur.below(4);
                    while p.count(c) < target {
                        match any_free(cur, &p) {
                            Some(s) => {
                                let pc = cur.pick(&[Pc::N, Pc::B, Pc::R, Pc::Q]);
                                p.b[s as usize] = Some((c, pc));
                            }
                            None => break,
                        }
                    }
                }
                4 => {
                    // ep mark on an arbitrary square
                    p.ep = Some(cur.below(64) as Sq);
                }
                5 => {
                    // opponent king attacked: flip the side to move of a position that is in check,
                    // or drop an attacker next to the opponent king
                    if p.in_check(p.side) {
                        p.side = p.side.inv();
                        p.ep = None;
                    } else {
                        let k = p.king_sq(p.side.inv()).unwrap();
                        let pc = cur.pick(&[Pc::N, Pc::R, Pc::B, Pc::Q, Pc::P]);
                        let cands: Vec<Sq> = (0..64u8)
                            .filter(|&s| {
                                if p.b[s as usize].is_some() || (pc == Pc::P && (rank_of(s) == 0 || rank_of(s) == 7)) {
                                    return false;
                                }
                                let mut q = p.clone();
                                q.b[s as usize] = Some((p.side, pc));
                                q.reaches(s, k)
                            })
                            .collect();
                        if !cands.is_empty() {
                            let s = cands[cur.below(cands.len())];
                            p.b[s as usize] = Some((p.side, pc));
                        }
                    }
                }
                6 => {
                    // ep mark on the right rank but arbitrary file
                    let r = if p.side == Col::W { 4 } else { 3 };
                    p.ep = Some(mk_sq(cur.below(8) as i8, r).unwrap());
                }
                7 => {
                    // ep mark on the rank that would be right for the other side
                    let r = if p.side == Col::W { 3 } else { 4 };
                    p.ep = Some(mk_sq(cur.below(8) as i8, r).unwrap());
                }
                _ => {
                    // two faults at once
                    let c = if cur.bool() { Col::B } else { Col::W };
                    let k = p.king_sq(c).unwrap();
                    p.b[k as usize] = None;
                    p.ep = Some(cur.below(64) as Sq);
                }
            }
            (p, RAW_SOURCES[2])
        }
        6 | 7 => {
            // valid plus one normalisation trigger
            let (mut p, _) = gen_position(cur);
            match cur.below(5) {
                0 => {
                    let r = cur.u8();
                    p.castle = if r == 0 { [true; 4] } else { [r & 1 != 0, r & 2 != 0, r & 4 != 0, r & 8 != 0] };
                }
                1 => {
                    // all rights and a king or rook displaced
                    p.castle = [true; 4];
                    let s = cur.pick(&[0u8, 4, 7, 56, 60, 63]);
                    if !matches!(p.b[s as usize], Some((_, Pc::K))) {
                        p.b[s as usize] = if cur.bool() { None } else { Some(random_man(cur, false)) };
                        if matches!(p.b[s as usize], Some((_, Pc::P))) {
                            p.b[s as usize] = None;
                        }
                    }
                }
                2 => {
                    // mark on the right rank without an enemy pawn / with the passed square occupied
                    let r = if p.side == Col::W { 4 } else { 3 };
                    let s = mk_sq(cur.below(8) as i8, r).unwrap();
                    p.ep = Some(s);
                }
                3 => {
                    // proper mark, then block the square behind the pawn
                    let r = if p.side == Col::W { 4 } else { 3 };
                    let f = cur.below(8) as i8;
                    let s = mk_sq(f, r).unwrap();
                    let behind = mk_sq(f, r + p.side.dir()).unwrap();
                    if p.b[s as usize].is_none() && p.b[behind as usize].is_none() {
                        p.b[s as usize] = Some((p.side.inv(), Pc::P));
                        p.ep = Some(s);
                        if cur.bool() {
                            p.b[behind as usize] = Some((if cur.bool() { Col::W } else { Col::B }, Pc::N));
                        }
                    }
                }
                _ => {
                    // mark on a pawn of the wrong colour
                    let r = if p.side == Col::W { 4 } else { 3 };
                    let f = cur.below(8) as i8;
                    let s = mk_sq(f, r).unwrap();
                    if p.b[s as usize].is_none() {
                        p.b[s as usize] = Some((p.side, Pc::P));
                    }
                    p.ep = Some(s);
                }
            }
            (p, RAW_SOURCES[3])
        }
        _ => {
            // crowded boards around the 16-men limit
            let mut p = RefPos::empty();
            let nw = 14 + cur.below(5);
            let nb = 14 + cur.below(5);
            for (c, n) in [(Col::W, nw), (Col::B, nb)] {
                if let Some(s) = any_free(cur, &p) {
                    p.b[s as usize] = Some((c, Pc::K));
                }
                for _ in 1..n {
                    if let Some(s) = any_free(cur, &p) {
                        let mut pc = cur.pick(&[Pc::P, Pc::N, Pc::B, Pc::R, Pc::Q]);
                        if pc == Pc::P && (rank_of(s) == 0 || rank_of(s) == 7) && !cur.chance(20) {
                            pc = Pc::N;
                        }
                        p.b[s as usize] = Some((c, pc));
                    }
                }
            }
            p.side = if cur.bool() { Col::B } else { Col::W };
            p.half = gen_counter(cur);
            p.full = gen_counter(cur);
            (p, RAW_SOURCES[4])
        }
    }
}

pub fn gen_raw_case(cur: &mut Cursor) -> Value {
    let (p, src) = gen_raw(cur);
    crate::common::with_twin(cur, raw_to_json(&p, src))
}
