//! Engine: sharded proptest runners over byte genomes, exhaustive drivers, classification,
//! replay files, known findings and evidence parts.

use crate::gen::{splitmix, Cursor};
use proptest::prelude::*;
use proptest::test_runner::{Config, RngAlgorithm, TestCaseError, TestError, TestRng, TestRunner};
use serde_json::{json, Value};
use std::cell::RefCell;
use std::collections::hash_map::DefaultHasher;
use std::collections::{BTreeMap, HashSet};
use std::hash::{Hash, Hasher};
use std::panic::{catch_unwind, AssertUnwindSafe};
use std::path::PathBuf;
use std::sync::atomic::{AtomicBool, Ordering};
use std::sync::Mutex;
use std::time::Instant;

pub const SHARDS: usize = 16;

/// Analysis tools (tools/matrix.sh, refactor_matrix.sh) may scale case counts down; registered commands never set this.
pub fn cases_percent() -> u64 {
    std::env::var("VERIF_CASES_PERCENT").ok().and_then(|s| s.parse::<u64>().ok()).map(|p| p.clamp(1, 100)).unwrap_or(100)
}

pub fn hash64<T: Hash>(t: &T) -> u64 {
    let mut h = DefaultHasher::new();
    t.hash(&mut h);
    h.finish()
}

#[derive(Debug, Clone)]
pub struct Failure {
    pub msg: String,
    /// signature used to match known findings (defaults to the canonical case text)
    pub sig: Option<String>,
}

impl Failure {
    pub fn new(msg: impl Into<String>) -> Failure {
        Failure { msg: msg.into(), sig: None }
    }
}

pub type CheckResult = Result<(), Failure>;

#[macro_export]
macro_rules! fail {
    ($($arg:tt)*) => { return Err($crate::engine::Failure::new(format!($($arg)*))) };
}

#[macro_export]
macro_rules! ensure {
    ($cond:expr, $($arg:tt)*) => { if !($cond) { return Err($crate::engine::Failure::new(format!($($arg)*))); } };
}

#[derive(Default)]
pub struct Stats {
    pub evaluations: u64,
    pub labels: BTreeMap<String, u64>,
    pub nontrivial: HashSet<u64>,
    pub samples_nt: Vec<Value>,
    pub samples_other: Vec<Value>,
    pub skipped: BTreeMap<String, u64>,
    pub known_excluded: BTreeMap<String, u64>,
    pub extra: BTreeMap<String, u64>,
    frozen: bool,
    cur_nontrivial: bool,
}

impl Stats {
    pub fn label(&mut self, l: &str) {
        if !self.frozen {
            *self.labels.entry(l.to_string()).or_insert(0) += 1;
        }
    }
    pub fn label_if(&mut self, cond: bool, l: &str) {
        if cond {
            self.label(l);
        }
    }
    pub fn add(&mut self, key: &str, n: u64) {
        if !self.frozen {
            *self.extra.entry(key.to_string()).or_insert(0) += n;
        }
    }
    /// marks the current case as non-trivial with the given distinctness key
    pub fn nontrivial<T: Hash>(&mut self, key: &T) {
        if !self.frozen {
            self.nontrivial.insert(hash64(key));
            self.cur_nontrivial = true;
        }
    }
    pub fn skip(&mut self, why: &str) {
        if !self.frozen {
            *self.skipped.entry(why.to_string()).or_insert(0) += 1;
        }
    }
    fn begin(&mut self) {
        self.cur_nontrivial = false;
    }
    fn end(&mut self, case: &Value) {
        if self.frozen {
            return;
        }
        self.evaluations += 1;
        if self.cur_nontrivial {
            if self.samples_nt.len() < 4 {
                self.samples_nt.push(case.clone());
            }
        } else if self.samples_other.len() < 2 {
            self.samples_other.push(case.clone());
        }
    }
    /// for exhaustive drivers that do not build a JSON case per evaluation
    pub fn count(&mut self, n: u64) {
        self.evaluations += n;
    }
    pub fn sample(&mut self, case: Value) {
        if self.samples_nt.len() < 4 {
            self.samples_nt.push(case);
        }
    }
    pub fn merge(&mut self, o: Stats) {
        self.evaluations += o.evaluations;
        for (k, v) in o.labels {
            *self.labels.entry(k).or_insert(0) += v;
        }
        for (k, v) in o.skipped {
            *self.skipped.entry(k).or_insert(0) += v;
        }
        for (k, v) in o.known_excluded {
            *self.known_excluded.entry(k).or_insert(0) += v;
        }
        for (k, v) in o.extra {
            *self.extra.entry(k).or_insert(0) += v;
        }
        self.nontrivial.extend(o.nontrivial);
        for s in o.samples_nt {
            if self.samples_nt.len() < 6 {
                self.samples_nt.push(s);
            }
        }
        for s in o.samples_other {
            if self.samples_other.len() < 2 {
                self.samples_other.push(s);
            }
        }
    }
}

#[derive(Clone, Copy, PartialEq, Eq, Debug)]
pub enum Tier {
    Quick,
    Thorough,
}

#[derive(Clone, Copy, PartialEq, Eq, Debug)]
pub enum Configs {
    Both,
    ReleaseOnly,
    CheckedOnly,
}

pub struct RunCtx {
    pub tier: Tier,
    pub seed: u64,
    pub config: String,
    pub root: PathBuf,
    pub property: &'static str,
}

pub type Reporter<'a> = dyn FnMut(Value, Failure) + 'a;

pub enum Driver {
    /// proptest over byte genomes
    Generated { gen: fn(&mut Cursor) -> Value, genome_len: usize, quick: u64, thorough: u64 },
    /// exhaustive / custom driver; reports failing cases through the reporter
    Custom { run: fn(&RunCtx, &mut Stats, &mut Reporter) },
}

pub struct SubCheck {
    pub name: &'static str,
    pub driver: Driver,
    /// oracle on an explicit case (also the replay entry point)
    pub check: fn(&Value, &mut Stats) -> CheckResult,
    pub configs: Configs,
    /// labels that must have at least one hit, otherwise the run is inconclusive (exit 2)
    pub required: &'static [&'static str],
    /// explicit cases (JSON text) replayed first on every run
    pub regressions: &'static [&'static str],
    pub exhaustive: bool,
}

pub struct Property {
    pub id: &'static str,
    pub rule: &'static str,
    pub assumptions: &'static [&'static str],
    pub subchecks: Vec<SubCheck>,
}

// -------------------------------------------------------------------------------------------
// panic handling

thread_local! {
    static CURRENT: RefCell<Option<(String, String, Value)>> = RefCell::new(None);
    static LAST_PANIC: RefCell<Option<String>> = RefCell::new(None);
}

static ROOT: Mutex<Option<PathBuf>> = Mutex::new(None);
static STRICT_REPLAY: AtomicBool = AtomicBool::new(false);

pub fn install_panic_hook(root: PathBuf) {
    *ROOT.lock().unwrap() = Some(root);
    std::panic::set_hook(Box::new(|info| {
        let payload = if let Some(s) = info.payload().downcast_ref::<&str>() {
            s.to_string()
        } else if let Some(s) = info.payload().downcast_ref::<String>() {
            s.clone()
        } else {
            "<non-string panic payload>".to_string()
        };
        let loc = info.location().map(|l| format!("{}:{}", l.file(), l.line())).unwrap_or_default();
        let msg = format!("panic at {}: {}", loc, payload);
        let in_check = CURRENT.with(|c| c.borrow().is_some());
        // `PanicHookInfo::can_unwind` is unstable; non-unwinding panics are recognised by their text
        let aborting = payload.starts_with("unsafe precondition(s) violated") || payload.contains("cannot unwind");
        if aborting {
            // the process is about to abort: attribute it to the current case right now. Several shards may hit
            // the same defect at once; only the first one reports, the others wait for the process to die.
            static ABORTING: AtomicBool = AtomicBool::new(false);
            if ABORTING.swap(true, Ordering::SeqCst) {
                loop {
                    std::thread::sleep(std::time::Duration::from_secs(3600));
                }
            }
            let cur = CURRENT.with(|c| c.borrow().clone());
            if let Some((prop, sub, case)) = cur {
                let root = ROOT.lock().ok().and_then(|r| r.clone()).unwrap_or_else(|| PathBuf::from("/verif"));
                let path = write_replay(&root, &prop, &sub, &case, &format!("ABORT (non-unwinding) {}", msg));
                println!("VIOLATION property={} replay={}", prop, path.display());
            }
            eprintln!("fatal: non-unwinding {}", msg);
            use std::io::Write;
            let _ = std::io::stdout().flush();
        } else if in_check {
            LAST_PANIC.with(|p| *p.borrow_mut() = Some(msg));
        } else {
            eprintln!("harness {}", msg);
        }
    }));
}

pub fn write_replay(root: &PathBuf, prop: &str, sub: &str, case: &Value, msg: &str) -> PathBuf {
    let dir = root.join("replays");
    let _ = std::fs::create_dir_all(&dir);
    let h = hash64(&(prop, sub, case.to_string()));
    let path = dir.join(format!("{}-{}-{:016x}.json", prop, sub, h));
    let v = json!({"property": prop, "subcheck": sub, "case": case, "message": msg});
    let _ = std::fs::write(&path, serde_json::to_string_pretty(&v).unwrap());
    path
}

/// Runs one oracle evaluation with panic capture.
pub fn guarded(prop: &str, sub: &str, check: fn(&Value, &mut Stats) -> CheckResult, case: &Value, stats: &mut Stats) -> CheckResult {
    CURRENT.with(|c| *c.borrow_mut() = Some((prop.to_string(), sub.to_string(), case.clone())));
    stats.begin();
    let r = catch_unwind(AssertUnwindSafe(|| check(case, stats)));
    CURRENT.with(|c| *c.borrow_mut() = None);
    let r = match r {
        Ok(r) => r,
        Err(_) => {
            let m = LAST_PANIC.with(|p| p.borrow_mut().take()).unwrap_or_else(|| "panic".into());
            Err(Failure::new(format!("library panicked: {}", m)))
        }
    };
    if r.is_ok() {
        stats.end(case);
    }
    r
}

// -------------------------------------------------------------------------------------------
// known findings

#[derive(Clone, Debug)]
pub struct Known {
    pub property: String,
    pub subcheck: String,
    pub signature: String,
    pub what: String,
}

pub fn load_known(root: &PathBuf) -> Vec<Known> {
    let p = root.join("known_findings.json");
    let txt = match std::fs::read_to_string(&p) {
        Ok(t) => t,
        Err(_) => return Vec::new(),
    };
    let v: Value = match serde_json::from_str(&txt) {
        Ok(v) => v,
        Err(e) => {
            eprintln!("warning: cannot parse {}: {}", p.display(), e);
            return Vec::new();
        }
    };
    let mut out = Vec::new();
    if let Some(arr) = v.get("known").and_then(|k| k.as_array()) {
        for k in arr {
            out.push(Known {
                property: k["property"].as_str().unwrap_or("").to_string(),
                subcheck: k["subcheck"].as_str().unwrap_or("").to_string(),
                signature: k["signature"].as_str().unwrap_or("").to_string(),
                what: k["what"].as_str().unwrap_or("").to_string(),
            });
        }
    }
    out
}

fn match_known<'a>(known: &'a [Known], prop: &str, sub: &str, case: &Value, f: &Failure) -> Option<&'a Known> {
    let sig = f.sig.clone().unwrap_or_else(|| case.to_string());
    known.iter().find(|k| k.property == prop && k.subcheck == sub && k.signature == sig)
}

// -------------------------------------------------------------------------------------------
// running

pub struct SubResult {
    pub name: &'static str,
    pub stats: Stats,
    pub violations: Vec<(Value, String, PathBuf)>,
    pub known_hits: BTreeMap<String, String>,
    pub infra: Vec<String>,
    pub wall_s: f64,
    pub exhaustive: bool,
}

fn fen_minimise(prop: &str, sub: &str, check: fn(&Value, &mut Stats) -> CheckResult, case: &Value) -> Value {
    // domain minimiser for cases carrying a "fen": drop men, rights, mark, counters while failing
    use crate::refmodel::*;
    let fen = match case.get("fen").and_then(|f| f.as_str()) {
        Some(f) => f.to_string(),
        None => return case.clone(),
    };
    let mut pos = match ref_from_fen(&fen) {
        Ok(p) => p,
        Err(_) => return case.clone(),
    };
    let still_fails = |p: &RefPos| -> bool {
        if !p.is_valid() || p.normalised() != *p {
            return false;
        }
        let mut c = case.clone();
        c["fen"] = json!(p.fen());
        let mut st = Stats::default();
        st.frozen = true;
        guarded(prop, sub, check, &c, &mut st).is_err()
    };
    let mut changed = true;
    let mut rounds = 0;
    while changed && rounds < 4 {
        changed = false;
        rounds += 1;
        for s in 0..64usize {
            if let Some((_, pc)) = pos.b[s] {
                if pc == Pc::K {
                    continue;
                }
                let mut t = pos.clone();
                t.b[s] = None;
                let t2 = {
                    let mut n = t.normalised();
                    n.half = t.half;
                    n.full = t.full;
                    n
                };
                if still_fails(&t2) {
                    pos = t2;
                    changed = true;
                }
            }
        }
        for i in 0..4 {
            if pos.castle[i] {
                let mut t = pos.clone();
                t.castle[i] = false;
                if still_fails(&t) {
                    pos = t;
                    changed = true;
                }
            }
        }
        if pos.ep.is_some() {
            let mut t = pos.clone();
            t.ep = None;
            if still_fails(&t) {
                pos = t;
                changed = true;
            }
        }
        if pos.half != 0 {
            let mut t = pos.clone();
            t.half = 0;
            if still_fails(&t) {
                pos = t;
                changed = true;
            }
        }
        if pos.full != 1 {
            let mut t = pos.clone();
            t.full = 1;
            if still_fails(&t) {
                pos = t;
                changed = true;
            }
        }
    }
    let mut c = case.clone();
    c["fen"] = json!(pos.fen());
    c
}

pub fn run_subcheck(ctx: &RunCtx, prop: &Property, sc: &SubCheck, known: &[Known]) -> SubResult {
    let t0 = Instant::now();
    let mut res = SubResult {
        name: sc.name,
        stats: Stats::default(),
        violations: Vec::new(),
        known_hits: BTreeMap::new(),
        infra: Vec::new(),
        wall_s: 0.0,
        exhaustive: sc.exhaustive,
    };
    // 1. regressions first
    for txt in sc.regressions {
        match serde_json::from_str::<Value>(txt) {
            Ok(case) => {
                if let Err(f) = guarded(prop.id, sc.name, sc.check, &case, &mut res.stats) {
                    handle_failure(ctx, prop, sc, known, &mut res, case, f, false);
                }
                res.stats.add("regressions_replayed", 1);
            }
            Err(e) => res.infra.push(format!("bad regression case {:?}: {}", txt, e)),
        }
    }
    // samples in the evidence should show generated cases, not the fixed regression inputs
    res.stats.samples_nt.clear();
    res.stats.samples_other.clear();
    // 2. the driver
    match &sc.driver {
        Driver::Custom { run } => {
            let mut found: Vec<(Value, Failure)> = Vec::new();
            {
                let mut rep = |c: Value, f: Failure| {
                    if found.len() < 8 {
                        found.push((c, f));
                    }
                };
                let r = catch_unwind(AssertUnwindSafe(|| run(ctx, &mut res.stats, &mut rep)));
                if r.is_err() {
                    let m = LAST_PANIC.with(|p| p.borrow_mut().take()).unwrap_or_else(|| "panic".into());
                    res.infra.push(format!("custom driver panicked outside a guarded case: {}", m));
                }
            }
            for (c, f) in found {
                handle_failure(ctx, prop, sc, known, &mut res, c, f, false);
            }
        }
        Driver::Generated { gen, genome_len, quick, thorough } => {
            let mut total = if ctx.tier == Tier::Quick { *quick } else { *thorough };
            // analysis tools (tools/matrix.sh) may scale the case counts down; registered commands never set this
            if let Some(pct) = std::env::var("VERIF_CASES_PERCENT").ok().and_then(|s| s.parse::<u64>().ok()) {
                total = (total * pct.clamp(1, 100) / 100).max(SHARDS as u64);
            }
            let per = (total + SHARDS as u64 - 1) / SHARDS as u64;
            let results: Vec<(Stats, Vec<(Value, Failure)>)> = std::thread::scope(|s| {
                let handles: Vec<_> = (0..SHARDS)
                    .map(|i| {
                        let gen = *gen;
                        let genome_len = *genome_len;
                        let check = sc.check;
                        let pid = prop.id;
                        let sname = sc.name;
                        let seed = splitmix(ctx.seed ^ splitmix(hash64(&(pid, sname)) ^ i as u64));
                        let known = known.to_vec();
                        std::thread::Builder::new()
                            .stack_size(64 << 20)
                            .spawn_scoped(s, move || run_shard(pid, sname, gen, check, genome_len, per, seed, &known))
                            .unwrap()
                    })
                    .collect();
                handles.into_iter().map(|h| h.join().unwrap()).collect()
            });
            let mut fails = Vec::new();
            for (st, f) in results {
                res.stats.merge(st);
                fails.extend(f);
            }
            // report at most 3 distinct shrunk failures
            let mut seen = HashSet::new();
            for (c, f) in fails {
                if seen.insert(c.to_string()) && seen.len() <= 3 {
                    handle_failure(ctx, prop, sc, known, &mut res, c, f, true);
                }
            }
        }
    }
    for r in sc.required {
        if res.stats.labels.get(*r).copied().unwrap_or(0) == 0 && res.violations.is_empty() {
            res.infra.push(format!("required class {:?} had zero hits in sub-check {}", r, sc.name));
        }
    }
    let sk: u64 = res.stats.skipped.values().sum();
    if sk * 50 > res.stats.evaluations + sk && sk > 10 {
        res.infra.push(format!("sub-check {}: {} of {} cases skipped: {:?}", sc.name, sk, res.stats.evaluations + sk, res.stats.skipped));
    }
    res.wall_s = t0.elapsed().as_secs_f64();
    res
}

fn handle_failure(ctx: &RunCtx, prop: &Property, sc: &SubCheck, known: &[Known], res: &mut SubResult, case: Value, f: Failure, minimise: bool) {
    if let Some(k) = match_known(known, prop.id, sc.name, &case, &f) {
        res.known_hits.insert(k.signature.clone(), k.what.clone());
        return;
    }
    if f.msg.starts_with("harness:") {
        // a defect of the machinery itself is never reported as a violation of the property
        res.infra.push(format!("sub-check {}: {} (case {})", sc.name, f.msg, case));
        return;
    }
    let case = if minimise { fen_minimise(prop.id, sc.name, sc.check, &case) } else { case };
    // re-evaluate to get the message of the minimised case
    let mut st = Stats::default();
    st.frozen = true;
    let msg = match guarded(prop.id, sc.name, sc.check, &case, &mut st) {
        Err(f2) => f2.msg,
        Ok(()) => f.msg.clone(),
    };
    let path = write_replay(&ctx.root, prop.id, sc.name, &case, &format!("[{}] {}", ctx.config, msg));
    println!("VIOLATION property={} replay={}", prop.id, path.display());
    eprintln!("  sub-check {} ({}): {}\n  case: {}", sc.name, ctx.config, msg, case);
    res.violations.push((case, msg, path));
}

#[allow(clippy::too_many_arguments)]
fn run_shard(
    pid: &'static str,
    sname: &'static str,
    gen: fn(&mut Cursor) -> Value,
    check: fn(&Value, &mut Stats) -> CheckResult,
    genome_len: usize,
    cases: u64,
    seed: u64,
    known: &[Known],
) -> (Stats, Vec<(Value, Failure)>) {
    let mut seed_bytes = [0u8; 32];
    let mut x = seed;
    for chunk in seed_bytes.chunks_mut(8) {
        x = splitmix(x);
        chunk.copy_from_slice(&x.to_le_bytes());
    }
    let config = Config {
        cases: cases.min(u32::MAX as u64) as u32,
        failure_persistence: None,
        max_shrink_iters: 2000,
        max_global_rejects: 1,
        ..Config::default()
    };
    let stats = RefCell::new(Stats::default());
    let known_hits: RefCell<Vec<String>> = RefCell::new(Vec::new());
    let mut fails: Vec<(Value, Failure)> = Vec::new();
    // Continue after known findings (excluded by signature, counted); stop at the first unknown one.
    let mut runner = TestRunner::new_with_rng(config, TestRng::from_seed(RngAlgorithm::ChaCha, &seed_bytes));
    let strat = proptest::collection::vec(any::<u8>(), (genome_len / 4)..=genome_len);
    let last_fail: RefCell<Option<Failure>> = RefCell::new(None);
    let r = runner.run(&strat, |genome| {
        let mut cur = Cursor::new(&genome);
        let case = gen(&mut cur);
        let mut st = stats.borrow_mut();
        match guarded(pid, sname, check, &case, &mut st) {
            Ok(()) => Ok(()),
            Err(f) => {
                if let Some(k) = match_known(known, pid, sname, &case, &f) {
                    if !st.frozen {
                        *st.known_excluded.entry(k.signature.clone()).or_insert(0) += 1;
                    }
                    known_hits.borrow_mut().push(k.signature.clone());
                    return Ok(());
                }
                st.frozen = true; // the closure is re-run during shrinking: stop counting
                *last_fail.borrow_mut() = Some(f.clone());
                Err(TestCaseError::fail(f.msg))
            }
        }
    });
    if let Err(e) = r {
        match e {
            TestError::Fail(_, genome) => {
                let mut cur = Cursor::new(&genome);
                let case = gen(&mut cur);
                let f = last_fail.borrow_mut().take().unwrap_or_else(|| Failure::new("failure"));
                // recompute failure for the minimal genome
                let mut st = Stats::default();
                st.frozen = true;
                let f = match guarded(pid, sname, check, &case, &mut st) {
                    Err(f2) => f2,
                    Ok(()) => f,
                };
                fails.push((case, f));
            }
            TestError::Abort(reason) => {
                fails.push((json!({"abort": reason.to_string()}), Failure::new("proptest aborted")));
            }
        }
    }
    let mut st = stats.into_inner();
    st.frozen = false;
    for k in known_hits.into_inner() {
        st.known_excluded.entry(k).or_insert(1);
    }
    (st, fails)
}

/// Helper for custom drivers: splits 0..n into chunks processed on 16 threads.
pub fn par_chunks<F>(n: u64, stats: &mut Stats, rep: &mut Reporter, f: F)
where
    F: Fn(std::ops::Range<u64>, &mut Stats, &mut Vec<(Value, Failure)>) + Sync,
{
    let per = (n + SHARDS as u64 - 1) / SHARDS as u64;
    let results: Vec<(Stats, Vec<(Value, Failure)>)> = std::thread::scope(|s| {
        let handles: Vec<_> = (0..SHARDS as u64)
            .map(|i| {
                let f = &f;
                std::thread::Builder::new()
                    .stack_size(64 << 20)
                    .spawn_scoped(s, move || {
                        let mut st = Stats::default();
                        let mut fails = Vec::new();
                        let lo = (i * per).min(n);
                        let hi = ((i + 1) * per).min(n);
                        f(lo..hi, &mut st, &mut fails);
                        (st, fails)
                    })
                    .unwrap()
            })
            .collect();
        handles.into_iter().map(|h| h.join().unwrap()).collect()
    });
    for (st, fails) in results {
        stats.merge(st);
        for (c, fl) in fails {
            rep(c, fl);
        }
    }
}

// -------------------------------------------------------------------------------------------
// evidence

pub fn sub_to_json(r: &SubResult) -> Value {
    let mut samples: Vec<Value> = r.stats.samples_nt.iter().take(4).cloned().collect();
    samples.extend(r.stats.samples_other.iter().take(2).cloned());
    json!({
        "name": r.name,
        "evaluations": r.stats.evaluations,
        "distinct_nontrivial": r.stats.nontrivial.len(),
        "labels": r.stats.labels,
        "counters": r.stats.extra,
        "skipped": r.stats.skipped,
        "known_excluded": r.stats.known_excluded,
        "samples": samples,
        "violations": r.violations.iter().map(|(c, m, p)| json!({"case": c, "message": m, "replay": p.display().to_string()})).collect::<Vec<_>>(),
        "inconclusive": r.infra,
        "exhaustive": r.exhaustive,
        "wall_s": (r.wall_s * 1000.0).round() / 1000.0,
    })
}

pub fn strict_replay() -> bool {
    STRICT_REPLAY.load(Ordering::Relaxed)
}
pub fn set_strict_replay(v: bool) {
    STRICT_REPLAY.store(v, Ordering::Relaxed)
}
