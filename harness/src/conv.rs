//! Conversions between owlchess values and the reference model, through public fields only.

use crate::refmodel::*;
use owlchess::types::{CastlingRights, CastlingSide, Cell, Color, Coord, File, Piece, Rank};
use owlchess::{Board, Move, MoveKind, RawBoard};

pub fn col_to_lib(c: Col) -> Color {
    match c {
        Col::W => Color::White,
        Col::B => Color::Black,
    }
}
pub fn col_from_lib(c: Color) -> Col {
    match c {
        Color::White => Col::W,
        Color::Black => Col::B,
    }
}
pub fn pc_to_lib(p: Pc) -> Piece {
    match p {
        Pc::P => Piece::Pawn,
        Pc::N => Piece::Knight,
        Pc::B => Piece::Bishop,
        Pc::R => Piece::Rook,
        Pc::Q => Piece::Queen,
        Pc::K => Piece::King,
    }
}
pub fn pc_from_lib(p: Piece) -> Pc {
    match p {
        Piece::Pawn => Pc::P,
        Piece::Knight => Pc::N,
        Piece::Bishop => Pc::B,
        Piece::Rook => Pc::R,
        Piece::Queen => Pc::Q,
        Piece::King => Pc::K,
    }
}
pub fn sq_to_lib(s: Sq) -> Coord {
    Coord::from_parts(File::from_index(file_of(s) as usize), Rank::from_index(7 - rank_of(s) as usize))
}
pub fn sq_from_lib(c: Coord) -> Sq {
    mk_sq(c.file().index() as i8, 7 - c.rank().index() as i8).unwrap()
}
pub fn man_to_cell(m: Option<Man>) -> Cell {
    match m {
        None => Cell::EMPTY,
        Some((c, p)) => Cell::from_parts(col_to_lib(c), pc_to_lib(p)),
    }
}
pub fn cell_to_man(c: Cell) -> Option<Man> {
    Some((col_from_lib(c.color()?), pc_from_lib(c.piece()?)))
}

pub fn ref_from_raw(r: &RawBoard) -> RefPos {
    let mut p = RefPos::empty();
    for s in 0..64u8 {
        p.b[s as usize] = cell_to_man(r.get(sq_to_lib(s)));
    }
    p.side = col_from_lib(r.side);
    p.castle = [
        r.castling.has(Color::White, CastlingSide::King),
        r.castling.has(Color::White, CastlingSide::Queen),
        r.castling.has(Color::Black, CastlingSide::King),
        r.castling.has(Color::Black, CastlingSide::Queen),
    ];
    p.ep = r.ep_source.map(sq_from_lib);
    p.half = r.move_counter;
    p.full = r.move_number;
    p
}

pub fn raw_from_ref(p: &RefPos) -> RawBoard {
    let mut r = RawBoard::empty();
    for s in 0..64u8 {
        r.put(sq_to_lib(s), man_to_cell(p.b[s as usize]));
    }
    r.side = col_to_lib(p.side);
    let mut c = CastlingRights::EMPTY;
    if p.castle[WK] {
        c.set(Color::White, CastlingSide::King);
    }
    if p.castle[WQ] {
        c.set(Color::White, CastlingSide::Queen);
    }
    if p.castle[BK] {
        c.set(Color::Black, CastlingSide::King);
    }
    if p.castle[BQ] {
        c.set(Color::Black, CastlingSide::Queen);
    }
    r.castling = c;
    r.ep_source = p.ep.map(sq_to_lib);
    r.move_counter = p.half;
    r.move_number = p.full;
    r
}

pub fn ref_from_board(b: &Board) -> RefPos {
    ref_from_raw(b.raw())
}

pub fn kind_to_lib(k: Kind) -> MoveKind {
    match k {
        Kind::Simple => MoveKind::Simple,
        Kind::CastleK => MoveKind::CastlingKingside,
        Kind::CastleQ => MoveKind::CastlingQueenside,
        Kind::Double => MoveKind::PawnDouble,
        Kind::Ep => MoveKind::Enpassant,
        Kind::Promo(Pc::N) => MoveKind::PromoteKnight,
        Kind::Promo(Pc::B) => MoveKind::PromoteBishop,
        Kind::Promo(Pc::R) => MoveKind::PromoteRook,
        Kind::Promo(Pc::Q) => MoveKind::PromoteQueen,
        Kind::Promo(_) => unreachable!("reference never promotes to pawn or king"),
    }
}
pub fn kind_from_lib(k: MoveKind) -> Option<Kind> {
    Some(match k {
        MoveKind::Null => return None,
        MoveKind::Simple => Kind::Simple,
        MoveKind::CastlingKingside => Kind::CastleK,
        MoveKind::CastlingQueenside => Kind::CastleQ,
        MoveKind::PawnDouble => Kind::Double,
        MoveKind::Enpassant => Kind::Ep,
        MoveKind::PromoteKnight => Kind::Promo(Pc::N),
        MoveKind::PromoteBishop => Kind::Promo(Pc::B),
        MoveKind::PromoteRook => Kind::Promo(Pc::R),
        MoveKind::PromoteQueen => Kind::Promo(Pc::Q),
    })
}

/// Library move -> reference move tuple (None for the null move / empty source cell)
pub fn mv_from_lib(m: &Move) -> Option<RefMove> {
    Some(RefMove {
        kind: kind_from_lib(m.kind())?,
        man: cell_to_man(m.src_cell())?,
        from: sq_from_lib(m.src()),
        to: sq_from_lib(m.dst()),
    })
}

/// Reference move -> library move through the checked constructor.
pub fn mv_to_lib(m: &RefMove) -> Result<Move, String> {
    Move::new(kind_to_lib(m.kind), man_to_cell(Some(m.man)), sq_to_lib(m.from), sq_to_lib(m.to))
        .map_err(|e| format!("Move::new refused reference move {:?}: {}", m, e))
}

pub fn all_kinds() -> [MoveKind; 10] {
    [
        MoveKind::Null,
        MoveKind::Simple,
        MoveKind::CastlingKingside,
        MoveKind::CastlingQueenside,
        MoveKind::PawnDouble,
        MoveKind::Enpassant,
        MoveKind::PromoteKnight,
        MoveKind::PromoteBishop,
        MoveKind::PromoteRook,
        MoveKind::PromoteQueen,
    ]
}

pub fn mv_desc(m: &Move) -> String {
    format!("{:?}:{}:{}{}", m.kind(), m.src_cell(), m.src(), m.dst())
}
