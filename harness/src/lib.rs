//! owlverif: property-based testing / fuzzing harness for owlchess (see /verif/DESIGN.md)

pub mod chainlib;
pub mod common;
pub mod conv;
pub mod engine;
pub mod fuzzmap;
pub mod gen;
pub mod props;
pub mod refmodel;
