//! CLI: check <ID> --tier quick|thorough [--seed N] [--config NAME] [--only SUB] [--part FILE]
//!            [--merge-part FILE] [--evidence FILE] [--replay FILE] [--root DIR]
//! Exit codes: 0 held, 1 violation (VIOLATION line printed), 2 inconclusive / infrastructure.

use owlverif::engine::*;
use owlverif::props;
use serde_json::{json, Value};
use std::path::PathBuf;
use std::time::Instant;

fn arg(args: &[String], name: &str) -> Option<String> {
    args.iter().position(|a| a == name).and_then(|i| args.get(i + 1).cloned())
}

fn main() {
    let args: Vec<String> = std::env::args().collect();
    if args.len() < 2 {
        eprintln!("usage: check <ID> --tier quick|thorough ...");
        std::process::exit(2);
    }
    let id = args[1].clone();
    let root = PathBuf::from(arg(&args, "--root").unwrap_or_else(|| "/verif".into()));
    install_panic_hook(root.clone());
    // a process that has used the named constructors before anything else (whatever they initialise once is initialised)
    let _ = (owlchess::Board::initial().zobrist_hash(), owlchess::RawBoard::initial(), owlchess::MoveChain::new_initial().len(), owlchess::RawBoard::empty());
    let tier = match arg(&args, "--tier").as_deref() {
        Some("thorough") => Tier::Thorough,
        _ => Tier::Quick,
    };
    let mut seed: u64 = arg(&args, "--seed")
        .or_else(|| std::env::var("VERIF_SEED").ok())
        .and_then(|s| s.trim().parse::<u64>().ok())
        .unwrap_or(1);
    if seed == 0 {
        seed = 1;
    }
    let config = arg(&args, "--config").unwrap_or_else(|| "release".into());
    let only = arg(&args, "--only");

    if id == "fuzz-replay" {
        // check fuzz-replay <target> <artifact>: decode a libFuzzer input, re-run its oracle, write a replay file
        let target = args.get(2).cloned().unwrap_or_default();
        let file = args.get(3).cloned().unwrap_or_default();
        let data = std::fs::read(&file).unwrap_or_else(|e| {
            eprintln!("cannot read {}: {}", file, e);
            std::process::exit(2)
        });
        match owlverif::fuzzmap::decode(&target, &data) {
            None => {
                println!("fuzz-replay: input decodes to nothing");
                std::process::exit(0);
            }
            Some((prop, sub, case, check)) => {
                let mut st = Stats::default();
                match guarded(prop, sub, check, &case, &mut st) {
                    Ok(()) => {
                        println!("fuzz-replay: {} {} holds on {}", prop, sub, case);
                        std::process::exit(0);
                    }
                    Err(f) if f.msg.starts_with("harness:") => {
                        eprintln!("INCONCLUSIVE: {}", f.msg);
                        std::process::exit(2);
                    }
                    Err(f) => {
                        let path = write_replay(&root, prop, sub, &case, &format!("[fuzz:{}] {}", target, f.msg));
                        println!("VIOLATION property={} replay={}", prop, path.display());
                        eprintln!("  {}\n  case: {}", f.msg, case);
                        std::process::exit(1);
                    }
                }
            }
        }
    }
    if id == "list" {
        for p in props::all() {
            println!("{} {}", p.id, p.subchecks.iter().map(|s| s.name).collect::<Vec<_>>().join(","));
        }
        return;
    }

    if id == "table" {
        // the sub-check table of DESIGN.md section 6.0, printed from the code
        fn sep(n: u64) -> String {
            let s = n.to_string();
            let mut out = String::new();
            for (i, ch) in s.chars().enumerate() {
                if i > 0 && (s.len() - i) % 3 == 0 {
                    out.push(',');
                }
                out.push(ch);
            }
            out
        }
        println!("| id | sub-check | driver and size | configurations |\n|---|---|---|---|");
        for p in props::all() {
            for s in &p.subchecks {
                let d = match &s.driver {
                    Driver::Generated { quick, thorough, genome_len, .. } => {
                        format!("generated ({}-byte genomes), {} / {} cases", genome_len, sep(*quick), sep(*thorough))
                    }
                    Driver::Custom { .. } if s.exhaustive => "custom driver, exhaustive enumeration".to_string(),
                    Driver::Custom { .. } => "custom driver (directed search / fixed case list)".to_string(),
                };
                let c = match s.configs {
                    Configs::Both => "release + checked",
                    Configs::ReleaseOnly => "release",
                    Configs::CheckedOnly => "checked",
                };
                println!("| {} | `{}` | {} | {} |", p.id, s.name, d, c);
            }
        }
        return;
    }

    let prop = match props::all().into_iter().find(|p| p.id == id) {
        Some(p) => p,
        None => {
            eprintln!("unknown property {}", id);
            std::process::exit(2);
        }
    };
    let ctx = RunCtx { tier, seed, config: config.clone(), root: root.clone(), property: prop.id };

    // replay mode: strict, no known-finding suppression
    if let Some(path) = arg(&args, "--replay") {
        let txt = std::fs::read_to_string(&path).unwrap_or_else(|e| {
            eprintln!("cannot read {}: {}", path, e);
            std::process::exit(2)
        });
        let v: Value = serde_json::from_str(&txt).unwrap_or_else(|e| {
            eprintln!("cannot parse {}: {}", path, e);
            std::process::exit(2)
        });
        let sub = v["subcheck"].as_str().unwrap_or("");
        let sc = match prop.subchecks.iter().find(|s| s.name == sub) {
            Some(s) => s,
            None => {
                eprintln!("unknown sub-check {:?} in replay file", sub);
                std::process::exit(2);
            }
        };
        let mut st = Stats::default();
        match guarded(prop.id, sc.name, sc.check, &v["case"], &mut st) {
            Ok(()) => {
                println!("replay: property {} sub-check {} HOLDS on this case [{}]", prop.id, sub, config);
                std::process::exit(0);
            }
            Err(f) => {
                println!("VIOLATION property={} replay={}", prop.id, path);
                eprintln!("  [{}] {}", config, f.msg);
                std::process::exit(1);
            }
        }
    }

    let known = load_known(&root);
    let t0 = Instant::now();
    let mut inconclusive: Vec<String> = Vec::new();
    // the reference model is trusted only after it reproduces published perft counts in this very run
    if !["C15", "C20"].contains(&prop.id) {
        let limit = if tier == Tier::Quick { 120_000 } else { 5_000_000 };
        match props::ref_selfcheck(limit) {
            Ok(nodes) => eprintln!("[{} {}] reference model reproduced published perft counts ({} nodes)", prop.id, config, nodes),
            Err(e) => inconclusive.push(format!("reference model self-check failed: {}", e)),
        }
    }
    let is_checked = config == "checked";
    let mut subs: Vec<Value> = Vec::new();
    let mut violations = 0u64;
    let mut known_lines: Vec<String> = Vec::new();
    for sc in &prop.subchecks {
        if let Some(o) = &only {
            if sc.name != o {
                continue;
            }
        }
        let wanted = match sc.configs {
            Configs::Both => true,
            Configs::ReleaseOnly => !is_checked,
            Configs::CheckedOnly => is_checked,
        };
        if !wanted {
            continue;
        }
        let r = run_subcheck(&ctx, &prop, sc, &known);
        violations += r.violations.len() as u64;
        for (sig, what) in &r.known_hits {
            known_lines.push(format!("KNOWN-FINDING: property={} {} [{}:{}]", prop.id, what, sc.name, sig));
        }
        for (sig, _) in &r.stats.known_excluded {
            if let Some(k) = known.iter().find(|k| &k.signature == sig) {
                let l = format!("KNOWN-FINDING: property={} {} [{}:{}]", prop.id, k.what, sc.name, sig);
                if !known_lines.contains(&l) {
                    known_lines.push(l);
                }
            }
        }
        inconclusive.extend(r.infra.iter().cloned());
        eprintln!(
            "[{} {} {}] {}: {} evaluations, {} distinct non-trivial, {} violations, {:.1}s",
            prop.id,
            config,
            if tier == Tier::Quick { "quick" } else { "thorough" },
            sc.name,
            r.stats.evaluations,
            r.stats.nontrivial.len(),
            r.violations.len(),
            r.wall_s
        );
        subs.push(sub_to_json(&r));
    }
    for l in &known_lines {
        println!("{}", l);
    }
    let wall = t0.elapsed().as_secs_f64();
    let part = json!({
        "property_id": prop.id,
        "config": config,
        "tier": if tier == Tier::Quick { "quick" } else { "thorough" },
        "seed": seed,
        "subchecks": subs,
        "violations": violations,
        "inconclusive": inconclusive,
        "wall_s": wall,
    });
    if let Some(p) = arg(&args, "--part") {
        let _ = std::fs::create_dir_all(PathBuf::from(&p).parent().unwrap());
        std::fs::write(&p, serde_json::to_string_pretty(&part).unwrap()).expect("write part");
    }
    if let Some(ev) = arg(&args, "--evidence") {
        let other: Option<Value> = arg(&args, "--merge-part")
            .and_then(|p| std::fs::read_to_string(p).ok())
            .and_then(|t| serde_json::from_str(&t).ok());
        let other_status = arg(&args, "--other-status");
        let evidence = owlverif::props::build_evidence(&prop, &part, other.as_ref(), other_status.as_deref());
        let _ = std::fs::create_dir_all(PathBuf::from(&ev).parent().unwrap());
        std::fs::write(&ev, serde_json::to_string_pretty(&evidence).unwrap()).expect("write evidence");
    }
    if violations > 0 {
        std::process::exit(1);
    }
    if !inconclusive.is_empty() {
        for i in &inconclusive {
            eprintln!("INCONCLUSIVE: {}", i);
        }
        std::process::exit(2);
    }
    std::process::exit(0);
}
