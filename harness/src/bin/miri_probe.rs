//! Small single-threaded workload meant to be run under Miri (`cargo +nightly miri run --bin miri_probe`):
//! the real pointer arithmetic of the magic lookups and the unchecked accesses of the generators are
//! executed under Miri's bounds / provenance / UB checking. Used by the thorough tiers of C15 and C19.
//! Prints "MIRI-PROBE ok <lookups> <positions>" on success; any UB makes Miri abort with a diagnostic.

use owlverif::conv::*;
use owlverif::gen::positions::gen_position_from;
use owlverif::gen::{splitmix, Cursor};
use owlverif::refmodel::*;
use owlchess::movegen::{legal, semilegal};
use owlchess::verif as hook;
use owlchess::{Bitboard, Board};

fn slide(s: Sq, occ: u64, dirs: &[(i8, i8)]) -> u64 {
    let mut out = 0u64;
    for &(df, dr) in dirs {
        let (mut f, mut r) = (file_of(s) + df, rank_of(s) + dr);
        while let Some(t) = mk_sq(f, r) {
            let bit = 1u64 << sq_to_lib(t).index();
            out |= bit;
            if occ & bit != 0 {
                break;
            }
            f += df;
            r += dr;
        }
    }
    out
}

fn main() {
    let args: Vec<String> = std::env::args().collect();
    let per_square: u64 = args.get(1).and_then(|s| s.parse().ok()).unwrap_or(24);
    let positions: u64 = args.get(2).and_then(|s| s.parse().ok()).unwrap_or(120);
    let seed: u64 = args.get(3).and_then(|s| s.parse().ok()).unwrap_or(1);
    let mut rng = splitmix(seed);
    let mut lookups = 0u64;
    for s in 0..64u8 {
        for rook in [false, true] {
            let dirs: &[(i8, i8)] = if rook { &[(1, 0), (-1, 0), (0, 1), (0, -1)] } else { &[(1, 1), (1, -1), (-1, 1), (-1, -1)] };
            for k in 0..per_square {
                rng = splitmix(rng);
                let occ = match k {
                    0 => 0,
                    1 => u64::MAX,
                    _ => rng & splitmix(rng ^ k),
                };
                let got = if rook { hook::rook(sq_to_lib(s), Bitboard::from_raw(occ)) } else { hook::bishop(sq_to_lib(s), Bitboard::from_raw(occ)) };
                assert_eq!(got.as_raw(), slide(s, occ, dirs), "slider lookup mismatch at {} occ {:#x}", sq_name(s), occ);
                lookups += 1;
            }
        }
        let c = sq_to_lib(s);
        let _ = (hook::king(c), hook::knight(c), hook::pawn(owlchess::Color::White, c), hook::pawn(owlchess::Color::Black, c));
        for t in 0..64u8 {
            let _ = (hook::is_bishop_valid(c, sq_to_lib(t)), hook::is_rook_valid(c, sq_to_lib(t)), hook::bishop_strict(c, sq_to_lib(t)), hook::rook_strict(c, sq_to_lib(t)));
        }
    }
    let mut done = 0u64;
    for i in 0..positions {
        let mut genome = vec![0u8; 160];
        for b in genome.iter_mut() {
            rng = splitmix(rng);
            *b = rng as u8;
        }
        let mut cur = Cursor::new(&genome);
        let (p, _) = gen_position_from(&mut cur, (i as usize) % owlverif::gen::positions::SOURCES.len());
        let b = match Board::try_from(raw_from_ref(&p)) {
            Ok(b) => b,
            Err(_) => continue,
        };
        let sl = semilegal::gen_all(&b);
        let l = legal::gen_all(&b);
        assert!(l.len() <= sl.len());
        let _ = (b.has_legal_moves(), b.is_check(), b.checkers(), b.calc_outcome());
        let mut c = b.clone();
        for m in sl.iter() {
            let _ = m.is_semilegal(&b);
            let u = unsafe { owlchess::moves::make_move_unchecked(&mut c, *m) };
            let _ = c.is_opponent_king_attacked();
            unsafe { owlchess::moves::unmake_move_unchecked(&mut c, *m, u) };
        }
        assert_eq!(c.raw(), b.raw());
        for m in l.iter().take(8) {
            let _ = m.san(&b).map(|s| s.to_string());
        }
        done += 1;
    }
    println!("MIRI-PROBE ok {} {}", lookups, done);
}
