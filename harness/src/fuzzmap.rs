//! Mapping from libFuzzer inputs to (property, sub-check, case): the coverage-guided campaigns share
//! generators, oracles and replay format with the proptest runs.
//!
//! fuzz_genome: byte 0 selects a generated sub-check (of the property named by OWLVERIF_FUZZ_ONLY, or of
//!              all properties), the remaining bytes are the genome decoded by that sub-check's generator.
//! fuzz_text:   byte 0 selects a C12 entry point, byte 1 a position, the rest is the text (lossy UTF-8).

use crate::engine::{Driver, Property, Stats};
use crate::gen::Cursor;
use crate::props;
use serde_json::{json, Value};
use std::sync::OnceLock;

pub struct Target {
    pub prop: &'static str,
    pub sub: &'static str,
    pub gen: fn(&mut Cursor) -> Value,
    pub check: fn(&Value, &mut Stats) -> crate::engine::CheckResult,
}

/// Generated sub-checks whose oracle relies on catching an expected panic.
pub const NOT_UNDER_LIBFUZZER: [(&str, &str); 1] = [("C19", "append_to_full_list")];

static TARGETS: OnceLock<Vec<Target>> = OnceLock::new();

pub fn targets() -> &'static Vec<Target> {
    TARGETS.get_or_init(|| {
        let only = std::env::var("OWLVERIF_FUZZ_ONLY").ok().filter(|s| !s.is_empty());
        let all: Vec<Property> = props::all();
        let mut v = Vec::new();
        for p in all {
            if let Some(o) = &only {
                if p.id != o {
                    continue;
                }
            }
            for sc in p.subchecks {
                // libfuzzer-sys aborts the process on *any* panic, including the ones an oracle provokes on purpose
                // and catches (a full fixed-capacity list must refuse by panicking): such sub-checks stay out
                if NOT_UNDER_LIBFUZZER.contains(&(p.id, sc.name)) {
                    continue;
                }
                if let Driver::Generated { gen, .. } = sc.driver {
                    v.push(Target { prop: p.id, sub: sc.name, gen, check: sc.check });
                }
            }
        }
        v
    })
}

pub fn decode(target: &str, data: &[u8]) -> Option<(&'static str, &'static str, Value, fn(&Value, &mut Stats) -> crate::engine::CheckResult)> {
    match target {
        "fuzz_genome" => {
            let ts = targets();
            if ts.is_empty() || data.is_empty() {
                return None;
            }
            let t = &ts[data[0] as usize % ts.len()];
            let mut cur = Cursor::new(&data[1..]);
            let case = (t.gen)(&mut cur);
            Some((t.prop, t.sub, case, t.check))
        }
        "fuzz_text" => {
            if data.len() < 2 {
                return None;
            }
            let entry = props::c12::ENTRIES[data[0] as usize % props::c12::ENTRIES.len()];
            let fen = props::c12::POSITIONS[data[1] as usize % props::c12::POSITIONS.len()];
            let text = String::from_utf8_lossy(&data[2..]).to_string();
            let all = props::all();
            let p = all.into_iter().find(|p| p.id == "C12")?;
            let sc = p.subchecks.into_iter().find(|s| s.name == "generated_strings")?;
            Some(("C12", "generated_strings", json!({"entry": entry, "text": text, "fen": fen}), sc.check))
        }
        _ => None,
    }
}

/// Runs one fuzz input; Err carries a description (the fuzz target panics on it). Library panics
/// propagate (the fuzz build aborts on panic), so they are crashes by themselves.
pub fn run(target: &str, data: &[u8]) -> Result<(), String> {
    let (prop, sub, case, check) = match decode(target, data) {
        Some(x) => x,
        None => return Ok(()),
    };
    let mut st = Stats::default();
    match check(&case, &mut st) {
        Ok(()) => Ok(()),
        Err(f) => {
            if f.msg.starts_with("harness:") {
                return Ok(());
            }
            Err(format!("property {} sub-check {}: {}\ncase: {}", prop, sub, f.msg, case))
        }
    }
}
