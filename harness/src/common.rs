//! Shared helpers for property modules: snapshots, case <-> board, the table of all well-formed moves.

use crate::conv::*;
use crate::engine::{Failure, Stats};
use crate::gen::positions::gen_position;
use crate::gen::Cursor;
use crate::refmodel::*;
use owlchess::types::{Cell, Coord};
use owlchess::{Board, Move, RawBoard};
use serde_json::{json, Value};
use std::sync::OnceLock;

/// Everything observable about a board, including derived state that `Board: Eq` ignores.
#[derive(Clone, PartialEq, Eq, Debug)]
pub struct Snapshot {
    pub raw: RawBoard,
    pub hash: u64,
    pub white: u64,
    pub black: u64,
    pub all: u64,
    pub pieces: [u64; 13],
}

pub fn snapshot(b: &Board) -> Snapshot {
    let mut pieces = [0u64; 13];
    for c in Cell::iter() {
        pieces[c.index()] = b.piece(c).as_raw();
    }
    Snapshot {
        raw: *b.raw(),
        hash: b.zobrist_hash(),
        white: b.color(owlchess::Color::White).as_raw(),
        black: b.color(owlchess::Color::Black).as_raw(),
        all: owlchess::verif::board_all(b).as_raw(),
        pieces,
    }
}

/// Snapshot recomputed from the squares alone (no library derived state except the from-scratch hash).
pub fn recomputed(raw: &RawBoard) -> Snapshot {
    let mut pieces = [0u64; 13];
    let (mut white, mut black) = (0u64, 0u64);
    for i in 0..64 {
        let c = raw.get(Coord::from_index(i));
        if c != Cell::EMPTY {
            pieces[c.index()] |= 1u64 << i;
            match c.color().unwrap() {
                owlchess::Color::White => white |= 1u64 << i,
                owlchess::Color::Black => black |= 1u64 << i,
            }
        }
    }
    Snapshot { raw: *raw, hash: raw.zobrist_hash(), white, black, all: white | black, pieces }
}

pub fn snap_diff(a: &Snapshot, b: &Snapshot) -> String {
    let mut d = Vec::new();
    if a.raw != b.raw {
        d.push(format!("raw: {} vs {}", a.raw.as_fen(), b.raw.as_fen()));
    }
    if a.hash != b.hash {
        d.push(format!("hash: {:#x} vs {:#x}", a.hash, b.hash));
    }
    if a.white != b.white {
        d.push(format!("white set: {:#x} vs {:#x}", a.white, b.white));
    }
    if a.black != b.black {
        d.push(format!("black set: {:#x} vs {:#x}", a.black, b.black));
    }
    if a.all != b.all {
        d.push(format!("combined set: {:#x} vs {:#x}", a.all, b.all));
    }
    for i in 0..13 {
        if a.pieces[i] != b.pieces[i] {
            d.push(format!("piece set {}: {:#x} vs {:#x}", i, a.pieces[i], b.pieces[i]));
        }
    }
    d.join("; ")
}

/// A valid board must equal its own from-scratch recomputation.
pub fn check_consistent(b: &Board, what: &str) -> Result<(), Failure> {
    let s = snapshot(b);
    let r = recomputed(b.raw());
    if s != r {
        return Err(Failure::new(format!("{}: stored state differs from recomputation: {}", what, snap_diff(&s, &r))));
    }
    // the two-argument accessor and the derived en-passant destination (secondary entry points to the same state)
    for col in [owlchess::Color::White, owlchess::Color::Black] {
        for pc in [owlchess::Piece::Pawn, owlchess::Piece::King, owlchess::Piece::Knight, owlchess::Piece::Bishop, owlchess::Piece::Rook, owlchess::Piece::Queen] {
            let cell = Cell::from_parts(col, pc);
            if b.piece2(col, pc).as_raw() != r.pieces[cell.index()] {
                return Err(Failure::new(format!("{}: piece2({:?}, {:?}) = {:#x}, the squares give {:#x}", what, col, pc, b.piece2(col, pc).as_raw(), r.pieces[cell.index()])));
            }
        }
    }
    let want_dest = b.raw().ep_source.map(|p| {
        Coord::from_parts(p.file(), if b.raw().side == owlchess::Color::White { owlchess::types::Rank::R6 } else { owlchess::types::Rank::R3 })
    });
    if b.raw().ep_dest() != want_dest {
        return Err(Failure::new(format!("{}: ep_dest() = {:?} with the mark on {:?} and {:?} to move", what, b.raw().ep_dest(), b.raw().ep_source, b.raw().side)));
    }
    Ok(())
}

pub fn gen_pos_case(cur: &mut Cursor) -> Value {
    let (p, src) = gen_position(cur);
    with_twin(cur, json!({"fen": p.fen(), "src": src}))
}

/// Adds the twin selector (see `twin_of`) to a case that carries a "fen".
pub fn with_twin(cur: &mut Cursor, mut case: Value) -> Value {
    let sel = (cur.u16() as u32) << 16 | cur.u16() as u32;
    case["twin"] = json!(sel);
    let age = (cur.u16() as u32) << 16 | cur.u16() as u32;
    case["age"] = json!(age);
    case
}

/// Gives a freshly built board object a history (selector from the genome; three out of four give none): one to three
/// pseudo-legal moves of the reference model (special moves and captures preferred), or the null move, are made and taken
/// back in place - through make_move_unchecked/unmake_move_unchecked, through Move::make_raw (which takes an illegal move
/// back by itself), or nested with a reply. The position is the same; every property quantified over valid positions
/// must hold for this object as for a fresh one. Returns the number of moves made and undone.
pub fn age_board(b: &mut Board, r: &RefPos, sel: u32) -> usize {
    use owlchess::moves::{make_move_unchecked, unmake_move_unchecked, Make};
    if sel & 3 != 2 {
        return 0;
    }
    let bytes = [crate::gen::splitmix(sel as u64 ^ 0x61_6765).to_le_bytes(), crate::gen::splitmix(sel as u64 ^ 0x6167_6532).to_le_bytes()].concat();
    let mut cur = Cursor::new(&bytes);
    let ps = r.pseudo_legal();
    let specials: Vec<RefMove> = ps.iter().filter(|m| !matches!(m.kind, Kind::Simple) || r.is_capture(m)).cloned().collect();
    let n = 1 + cur.below(3);
    let mut done = 0;
    for _ in 0..n {
        let mode = cur.below(4);
        if mode == 3 {
            if !r.in_check(r.side) {
                let u = unsafe { make_move_unchecked(b, Move::NULL) };
                unsafe { unmake_move_unchecked(b, Move::NULL, u) };
                done += 1;
            }
            continue;
        }
        if ps.is_empty() {
            continue;
        }
        let m = if !specials.is_empty() && cur.bool() { specials[cur.below(specials.len())] } else { ps[cur.below(ps.len())] };
        let lm = match mv_to_lib(&m) {
            Ok(x) => x,
            Err(_) => continue,
        };
        match mode {
            0 => {
                let u = unsafe { make_move_unchecked(b, lm) };
                unsafe { unmake_move_unchecked(b, lm, u) };
            }
            1 => {
                if let Ok((m2, u)) = lm.make_raw(b) {
                    unsafe { unmake_move_unchecked(b, m2, u) };
                }
            }
            _ => {
                let r2 = r.apply(&m);
                let legal = !r2.in_check(r.side);
                let u = unsafe { make_move_unchecked(b, lm) };
                if legal {
                    let ps2 = r2.pseudo_legal();
                    if !ps2.is_empty() {
                        if let Ok(lm2) = mv_to_lib(&ps2[cur.below(ps2.len())]) {
                            let u2 = unsafe { make_move_unchecked(b, lm2) };
                            unsafe { unmake_move_unchecked(b, lm2, u2) };
                        }
                    }
                }
                unsafe { unmake_move_unchecked(b, lm, u) };
            }
        }
        done += 1;
    }
    done
}

/// Runs the library's queries on the twin of a case without judging the answers: whatever the library remembers from
/// one call to the next is then about a position that differs from the case in a single feature.
pub fn warm_up(t: &RefPos) {
    use owlchess::movegen::{cell_attackers, is_cell_attacked, legal, semilegal};
    let raw = raw_from_ref(t);
    let _ = Board::try_from(&raw);
    let b = match Board::try_from(raw) {
        Ok(b) => b,
        Err(_) => return,
    };
    let _ = Board::try_from(b.raw());
    let l = legal::gen_all(&b);
    let _ = (semilegal::gen_all(&b).len(), b.has_legal_moves(), b.is_check(), b.checkers(), b.calc_outcome(), b.as_fen(), b.zobrist_hash());
    for m in l.iter() {
        let _ = m.validate(&b);
        if let Ok(s) = m.san(&b) {
            let text = s.to_string();
            let _ = Move::from_san(&text, &b);
        }
        let _ = Move::from_uci_legal(&m.to_string(), &b);
        if let Ok(nb) = b.make_move(*m) {
            let _ = (nb.is_check(), nb.has_legal_moves());
        }
    }
    for s in 0..64u8 {
        for c in [owlchess::Color::White, owlchess::Color::Black] {
            let _ = (is_cell_attacked(&b, sq_to_lib(s), c), cell_attackers(&b, sq_to_lib(s), c));
        }
    }
    // the last word goes to the twin itself, not to one of its successors
    let _ = (b.has_legal_moves(), b.is_check(), legal::gen_all(&b).len(), b.calc_outcome());
    if let Some(m) = l.first() {
        let _ = m.validate(&b);
        if let Ok(s) = m.san(&b) {
            let text = s.to_string();
            let _ = b.has_legal_moves();
            let _ = Move::from_san(&text, &b);
        }
    }
}


/// Decodes the position of a case through the reference FEN reader (not the library's parser).
/// Returns None (and counts a skip) if the library's gate refuses a reference-valid position.
pub fn case_board(case: &Value, stats: &mut Stats) -> Result<Option<(Board, RefPos)>, Failure> {
    let fen = case.get("fen").and_then(|f| f.as_str()).ok_or_else(|| Failure::new("case without fen"))?;
    let p = ref_from_fen(fen).map_err(|e| Failure::new(format!("harness: bad case fen {:?}: {}", fen, e)))?;
    if !p.is_valid() || p.normalised() != p {
        stats.skip("case_not_reference_valid");
        return Ok(None);
    }
    if let Some(t) = case.get("twin").and_then(|t| t.as_u64()).and_then(|sel| crate::gen::positions::twin_of(&p, sel as u32)) {
        warm_up(&t);
        stats.label("twin_evaluated_first");
    }
    let raw = raw_from_ref(&p);
    match Board::try_from(raw) {
        Ok(b) => {
            if *b.raw() != raw {
                stats.skip("gate_changed_normal_position");
                return Ok(None);
            }
            if let Some(src) = case.get("src").and_then(|s| s.as_str()) {
                stats.label(&format!("src:{}", src));
            }
            let mut b = b;
            if let Some(sel) = case.get("age").and_then(|t| t.as_u64()) {
                if age_board(&mut b, &p, sel as u32) > 0 {
                    stats.label("board_object_with_history");
                }
            }
            Ok(Some((b, p)))
        }
        Err(_) => {
            stats.skip("gate_rejected_reference_valid_position");
            Ok(None)
        }
    }
}

pub fn pos_features(p: &RefPos, stats: &mut Stats) {
    let in_check = p.in_check(p.side);
    stats.label_if(in_check, "in_check");
    stats.label_if(p.ep.is_some(), "ep_mark");
    stats.label_if(p.castle.iter().any(|x| *x), "castling_right");
    stats.label_if(p.side == Col::B, "black_to_move");
    stats.label_if(
        crate::gen::COUNTER_EDGES.contains(&p.half) && p.half != 0 || p.full >= 65534,
        "counter_edge",
    );
}

static ALL_MOVES: OnceLock<Vec<Move>> = OnceLock::new();

/// All well-formed moves: every (kind, cell, src, dst) tuple accepted by `Move::new`.
pub fn all_wellformed() -> &'static Vec<Move> {
    ALL_MOVES.get_or_init(|| {
        let mut v = Vec::new();
        for k in all_kinds() {
            for c in Cell::iter() {
                for s in Coord::iter() {
                    for d in Coord::iter() {
                        if let Ok(m) = Move::new(k, c, s, d) {
                            v.push(m);
                        }
                    }
                }
            }
        }
        v
    })
}

pub fn lib_moves_to_ref(ms: &[Move]) -> Result<Vec<RefMove>, Failure> {
    let mut out = Vec::with_capacity(ms.len());
    for m in ms {
        match mv_from_lib(m) {
            Some(r) => out.push(r),
            None => return Err(Failure::new(format!("generator produced a null / empty-cell move {}", mv_desc(m)))),
        }
    }
    Ok(out)
}

/// Compares two move multisets; returns a description of the difference.
pub fn diff_moves(lib: &[RefMove], reference: &[RefMove]) -> Option<String> {
    let mut a = lib.to_vec();
    let mut b = reference.to_vec();
    a.sort();
    b.sort();
    if a == b {
        return None;
    }
    let mut dup = Vec::new();
    for w in a.windows(2) {
        if w[0] == w[1] {
            dup.push(w[0]);
        }
    }
    let extra: Vec<String> = a.iter().filter(|m| !b.contains(m)).map(|m| format!("{:?}/{}", m.kind, m.uci())).collect();
    let missing: Vec<String> = b.iter().filter(|m| !a.contains(m)).map(|m| format!("{:?}/{}", m.kind, m.uci())).collect();
    Some(format!(
        "library-only: [{}], reference-only: [{}], duplicates: [{}]",
        extra.join(","),
        missing.join(","),
        dup.iter().map(|m| m.uci()).collect::<Vec<_>>().join(",")
    ))
}

// ------------------------------------------------------------------------------------------
// apply/undo walks shared by C04 / C05 / C19

pub fn gen_walk_case(cur: &mut Cursor) -> Value {
    let (p, src) = gen_position(cur);
    let n = 8 + cur.below(120);
    let path: Vec<u8> = (0..n).map(|_| cur.u8()).collect();
    with_twin(cur, json!({"fen": p.fen(), "src": src, "path": path}))
}

pub struct WalkReport {
    pub max_depth: usize,
    pub pushes: usize,
    pub pops: usize,
    pub illegal_rollbacks: usize,
    pub nulls: usize,
    pub specials: usize,
    pub captures: usize,
}

/// Interprets a byte path as a properly nested make/unmake sequence over semilegal and null moves.
/// `on_pos` is called on every position reached by a legal or null move; `strict_undo` compares the
/// full snapshot after every unmake with the snapshot taken before the matching make.
pub fn walk(
    b: &Board,
    path: &[u8],
    strict_undo: bool,
    on_pos: &mut dyn FnMut(&Board) -> Result<(), Failure>,
) -> Result<WalkReport, Failure> {
    use owlchess::movegen::semilegal;
    use owlchess::moves::{make_move_unchecked, unmake_move_unchecked, RawUndo};
    let mut cur = b.clone();
    let mut stack: Vec<(Snapshot, Move, RawUndo)> = Vec::new();
    let mut rep = WalkReport { max_depth: 0, pushes: 0, pops: 0, illegal_rollbacks: 0, nulls: 0, specials: 0, captures: 0 };
    for &byte in path {
        if byte < 56 && !stack.is_empty() {
            let (snap, mv, u) = stack.pop().unwrap();
            unsafe { unmake_move_unchecked(&mut cur, mv, u) };
            rep.pops += 1;
            if strict_undo {
                let now = snapshot(&cur);
                if now != snap {
                    return Err(Failure::new(format!("undo of {} did not restore the position: {}", mv_desc(&mv), snap_diff(&now, &snap))));
                }
            }
            continue;
        }
        if byte == 255 && !cur.is_check() {
            let snap = snapshot(&cur);
            let u = unsafe { make_move_unchecked(&mut cur, Move::NULL) };
            stack.push((snap, Move::NULL, u));
            rep.nulls += 1;
            rep.pushes += 1;
            on_pos(&cur)?;
            continue;
        }
        let ms = semilegal::gen_all(&cur);
        if ms.is_empty() {
            continue;
        }
        let mv = ms[(byte as usize * ms.len()) >> 8];
        let snap = snapshot(&cur);
        let is_cap = cur.get(mv.dst()) != Cell::EMPTY || mv.kind() == owlchess::MoveKind::Enpassant;
        let u = unsafe { make_move_unchecked(&mut cur, mv) };
        if cur.is_opponent_king_attacked() {
            unsafe { unmake_move_unchecked(&mut cur, mv, u) };
            rep.illegal_rollbacks += 1;
            if strict_undo {
                let now = snapshot(&cur);
                if now != snap {
                    return Err(Failure::new(format!(
                        "rollback of the illegal semilegal move {} did not restore the position: {}",
                        mv_desc(&mv),
                        snap_diff(&now, &snap)
                    )));
                }
            }
            continue;
        }
        stack.push((snap, mv, u));
        rep.pushes += 1;
        if mv.kind() != owlchess::MoveKind::Simple {
            rep.specials += 1;
        }
        if is_cap {
            rep.captures += 1;
        }
        rep.max_depth = rep.max_depth.max(stack.len());
        on_pos(&cur)?;
    }
    while let Some((snap, mv, u)) = stack.pop() {
        unsafe { unmake_move_unchecked(&mut cur, mv, u) };
        rep.pops += 1;
        if strict_undo {
            let now = snapshot(&cur);
            if now != snap {
                return Err(Failure::new(format!("final unwinding: undo of {} did not restore the position: {}", mv_desc(&mv), snap_diff(&now, &snap))));
            }
        }
    }
    if strict_undo && snapshot(&cur) != snapshot(b) {
        return Err(Failure::new("after unwinding everything the board differs from the start".to_string()));
    }
    Ok(rep)
}

pub fn case_path(case: &Value) -> Vec<u8> {
    case.get("path").and_then(|p| p.as_array()).map(|a| a.iter().map(|x| x.as_u64().unwrap_or(0) as u8).collect()).unwrap_or_default()
}

// ------------------------------------------------------------------------------------------
// Pairs of positions that agree in one half of their Zobrist key, evaluated back to back (DESIGN 5.6)

fn nth_position(seed: u64, i: u64) -> Option<(RefPos, u64)> {
    let mut x = crate::gen::splitmix(seed ^ i.wrapping_mul(0x9E37_79B9_7F4A_7C15) ^ 0x6861_6c66);
    let mut genome = [0u8; 176];
    for chunk in genome.chunks_mut(8) {
        x = crate::gen::splitmix(x);
        chunk.copy_from_slice(&x.to_le_bytes()[..chunk.len()]);
    }
    let mut cur = Cursor::new(&genome);
    // all sources except the four that search or play out (they cost 10-100 times more per position)
    const FAST: [usize; 16] = [0, 1, 3, 4, 5, 6, 7, 8, 9, 10, 11, 13, 14, 17, 18, 19];
    let sel = FAST[cur.below(FAST.len())];
    let (p, _) = crate::gen::positions::gen_position_from(&mut cur, sel);
    if !p.is_valid() || p.normalised() != p {
        return None;
    }
    let b = Board::try_from(raw_from_ref(&p)).ok()?;
    Some((p, b.zobrist_hash()))
}

/// Generates `m` positions from all sources, sorts them by the low and by the high half of the library's own key and
/// returns the pairs that agree in one half (and are different positions), spread evenly, at most `cap` per half.
pub fn half_key_pairs(seed: u64, m: u64, cap: usize) -> Vec<Value> {
    let per = (m + crate::engine::SHARDS as u64 - 1) / crate::engine::SHARDS as u64;
    let mut all: Vec<(u64, u64)> = std::thread::scope(|s| {
        let hs: Vec<_> = (0..crate::engine::SHARDS as u64)
            .map(|t| {
                s.spawn(move || {
                    let mut v = Vec::with_capacity(per as usize);
                    for i in (t * per)..((t + 1) * per).min(m) {
                        if let Some((_, h)) = nth_position(seed, i) {
                            v.push((h, i));
                        }
                    }
                    v
                })
            })
            .collect();
        hs.into_iter().flat_map(|h| h.join().unwrap()).collect()
    });
    let mut out = Vec::new();
    for (half, shift) in [("low", 0u32), ("high", 32u32)] {
        all.sort_by_key(|(h, i)| ((h >> shift) as u32, *i));
        let mut found: Vec<(u64, u64)> = Vec::new();
        for w in all.windows(2) {
            if (w[0].0 >> shift) as u32 == (w[1].0 >> shift) as u32 && w[0].0 != w[1].0 {
                found.push((w[0].1, w[1].1));
            }
        }
        let step = (found.len() / cap.max(1)).max(1);
        for (k, (i, j)) in found.iter().enumerate() {
            if k % step != 0 {
                continue;
            }
            let (a, b) = (nth_position(seed, *i).unwrap().0, nth_position(seed, *j).unwrap().0);
            // both orders
            out.push(json!({"first": a.fen(), "fen": b.fen(), "half": half}));
            out.push(json!({"first": b.fen(), "fen": a.fen(), "half": half}));
        }
    }
    out
}

/// The property's check on the first position, then on the second, on one thread with nothing in between.
pub fn run_pair(case: &Value, stats: &mut Stats, f: fn(&Value, &mut Stats) -> Result<(), Failure>) -> Result<(), Failure> {
    let first = json!({"fen": case["first"]});
    let mut scratch = Stats::default();
    f(&first, &mut scratch).map_err(|e| Failure::new(format!("on the first position of the pair: {}", e.msg)))?;
    let second = json!({"fen": case["fen"]});
    f(&second, &mut scratch).map_err(|e| Failure::new(format!("on the second position, right after the first: {}", e.msg)))?;
    stats.label(&format!("equal_{}_half_of_the_key", case["half"].as_str().unwrap_or("?")));
    stats.nontrivial(&(case["first"].to_string(), case["fen"].to_string()));
    Ok(())
}

pub fn half_key_driver(
    prop: &'static str,
    check: fn(&Value, &mut Stats) -> Result<(), Failure>,
    ctx: &crate::engine::RunCtx,
    stats: &mut Stats,
    rep: &mut crate::engine::Reporter,
) {
    let (m, cap) = match ctx.tier {
        crate::engine::Tier::Quick => (2_000_000u64, 3000usize),
        crate::engine::Tier::Thorough => (16_000_000, 30000),
    };
    let m = (m * crate::engine::cases_percent() / 100).max(1000);
    let cases = half_key_pairs(ctx.seed, m, cap);
    stats.add("positions_generated_for_the_pair_search", m);
    if let Some(c) = cases.first() {
        stats.sample(c.clone());
    }
    // One thread, one pair after the other: state the library keeps between calls may be global as well as per thread,
    // and nothing may come between the two positions of a pair.
    let mut reported = 0;
    for c in &cases {
        if let Err(f) = crate::engine::guarded(prop, "half_key_pairs", check, c, stats) {
            if reported < 4 {
                rep(c.clone(), f);
                reported += 1;
            }
        }
    }
}
